// C02 correspondence harness: a whole single-process cell2 node (engine
// cell2verif/node: real front gate-1 with ClientSessions / HandlerComponent /
// ForwarderComponent, real back services chat-1, chat-2, hall-1, real
// ClientSession objects over in-memory connections) serves scripted raw pomelo
// clients inside a testing/synctest bubble.
//
// Op language / observations: see lean/Cell2v/Driver/C02.lean.
//
//	reset nc=<k> | join n=<k> | bind c=<i> to=<name|-|#n> | reqs [frag=<k>] q=<c>,<id>,<route>,<pay>|… | pipe c=<i> q=… | adv | flush
//	obs: r=<c>:resp:<id>:<err>:<hex>,…  i=<svc>:<method>:<v>,…   (both sorted: multisets)
package c02

import (
	"errors"
	"fmt"
	"math"
	"sort"
	"strconv"
	"strings"
	"sync"
	"testing"
	"testing/synctest"
	"time"

	"cell2verif/hx"
	"cell2verif/node"

	api "github.com/dfklegend/cell2/apimapper"
	as "github.com/dfklegend/cell2/actorex/service"
	"github.com/dfklegend/cell2/apimapper/apientry"
	"github.com/dfklegend/cell2/apimapper/registry"
	"github.com/dfklegend/cell2/node/client/impls"
	implcfg "github.com/dfklegend/cell2/node/client/impls/config"
	"github.com/dfklegend/cell2/node/cluster"
	noderoute "github.com/dfklegend/cell2/node/route"
	"github.com/dfklegend/cell2/node/service"
	"github.com/dfklegend/cell2/nodectrl/define"
	"github.com/dfklegend/cell2/pomelonet/common/conn/message"
)

// ---------------------------------------------------------------- handler zoo

type Arg struct {
	V int `json:"v"`
}

type Ret struct {
	S string `json:"s"`
	M string `json:"m"`
	V int    `json:"v"`
}

// Zoo is registered as group "zoo" of gate.handler, chat.handler, hall.handler.
type Zoo struct {
	api.APIEntry
}

func enter(ctx *impls.HandlerContext, m string, a *Arg) (*service.NodeService, *Ret) {
	ns := node.NSOf(ctx)
	node.Record(ns.Name, fmt.Sprintf("%s:%s:%d", ns.Name, m, a.V))
	return ns, &Ret{S: ns.Name, M: m, V: a.V}
}

func (z *Zoo) Echo(ctx *impls.HandlerContext, a *Arg, cb apientry.HandlerCBFunc) {
	_, r := enter(ctx, "echo", a)
	apientry.CheckInvokeCBFunc(cb, nil, r)
}

func (z *Zoo) Fail(ctx *impls.HandlerContext, a *Arg, cb apientry.HandlerCBFunc) {
	enter(ctx, "fail", a)
	apientry.CheckInvokeCBFunc(cb, fmt.Errorf("zoo failure"), nil)
}

func (z *Zoo) Boom(ctx *impls.HandlerContext, a *Arg, cb apientry.HandlerCBFunc) {
	enter(ctx, "boom", a)
	panic("zoo panic")
}

func (z *Zoo) Slow(ctx *impls.HandlerContext, a *Arg, cb apientry.HandlerCBFunc) {
	ns, r := enter(ctx, "slow", a)
	ns.GetRunService().GetTimerMgr().After(2*time.Second, func(args ...interface{}) {
		apientry.CheckInvokeCBFunc(cb, nil, r)
	})
}

func (z *Zoo) Late(ctx *impls.HandlerContext, a *Arg, cb apientry.HandlerCBFunc) {
	ns, r := enter(ctx, "late", a)
	ns.GetRunService().GetTimerMgr().After(42*time.Second, func(args ...interface{}) {
		apientry.CheckInvokeCBFunc(cb, nil, r)
	})
}

// S29 / S33 complete just inside / just outside the 30 s request timeout.
func (z *Zoo) S29(ctx *impls.HandlerContext, a *Arg, cb apientry.HandlerCBFunc) {
	ns, r := enter(ctx, "s29", a)
	ns.GetRunService().GetTimerMgr().After(29*time.Second, func(args ...interface{}) {
		apientry.CheckInvokeCBFunc(cb, nil, r)
	})
}

func (z *Zoo) S33(ctx *impls.HandlerContext, a *Arg, cb apientry.HandlerCBFunc) {
	ns, r := enter(ctx, "s33", a)
	ns.GetRunService().GetTimerMgr().After(33*time.Second, func(args ...interface{}) {
		apientry.CheckInvokeCBFunc(cb, nil, r)
	})
}

// RetNaN can not be marshalled by the json serializer.
type RetNaN struct {
	F float64 `json:"f"`
}

// Nan completes successfully with a value the client serializer refuses.
func (z *Zoo) Nan(ctx *impls.HandlerContext, a *Arg, cb apientry.HandlerCBFunc) {
	enter(ctx, "nan", a)
	apientry.CheckInvokeCBFunc(cb, nil, &RetNaN{F: math.NaN()})
}

// Fail0 fails with an error whose text is empty (msgs.Response.Error == "" is read as success by Forward).
func (z *Zoo) Fail0(ctx *impls.HandlerContext, a *Arg, cb apientry.HandlerCBFunc) {
	enter(ctx, "fail0", a)
	apientry.CheckInvokeCBFunc(cb, errors.New(""), nil)
}

// Login binds a user id to the session and pushes the session to the front (as a login handler
// does) WITHOUT waiting for the push, then completes like Echo.
func (z *Zoo) Login(ctx *impls.HandlerContext, a *Arg, cb apientry.HandlerCBFunc) {
	_, r := enter(ctx, "login", a)
	ctx.Session.Bind(fmt.Sprintf("u%d", a.V))
	ctx.Session.PushSession(nil)
	apientry.CheckInvokeCBFunc(cb, nil, r)
}

// Loginw completes only after the front acknowledged the pushed session.
func (z *Zoo) Loginw(ctx *impls.HandlerContext, a *Arg, cb apientry.HandlerCBFunc) {
	_, r := enter(ctx, "loginw", a)
	ctx.Session.Bind(fmt.Sprintf("u%d", a.V))
	ctx.Session.PushSession(func(error) { apientry.CheckInvokeCBFunc(cb, nil, r) })
}

// Okboom completes and then panics in the same frame.  CallMethod remembers that a completion went
// through, SafeCall's panic path does not complete a second time (repaired defect D23): exactly one
// response, the handler's result — front-local and forwarded.
func (z *Zoo) Okboom(ctx *impls.HandlerContext, a *Arg, cb apientry.HandlerCBFunc) {
	_, r := enter(ctx, "okboom", a)
	apientry.CheckInvokeCBFunc(cb, nil, r)
	panic("zoo: panic after completion")
}

// RetBoom makes the client serializer PANIC (not fail): the completion function itself panics
// before it has written anything.
type RetBoom struct{ V int }

func (r *RetBoom) MarshalJSON() ([]byte, error) { panic("zoo: MarshalJSON panics") }

// Mboom completes with such a value: the completion did not go through, the panic unwinds through
// the handler into SafeCall, which completes the request with the error "panic in rpc".
func (z *Zoo) Mboom(ctx *impls.HandlerContext, a *Arg, cb apientry.HandlerCBFunc) {
	enter(ctx, "mboom", a)
	apientry.CheckInvokeCBFunc(cb, nil, &RetBoom{V: a.V})
}

// Slowboom panics only AFTER an asynchronous completion (2 s timer): the completion goes through, the
// panic is recovered by the service's timer: one response.
func (z *Zoo) Slowboom(ctx *impls.HandlerContext, a *Arg, cb apientry.HandlerCBFunc) {
	ns, r := enter(ctx, "slowboom", a)
	ns.GetRunService().GetTimerMgr().After(2*time.Second, func(args ...interface{}) {
		apientry.CheckInvokeCBFunc(cb, nil, r)
		panic("zoo: panic after the asynchronous completion")
	})
}

// Tell is notify-shaped (no completion function).
func (z *Zoo) Tell(ctx *impls.HandlerContext, a *Arg) {
	enter(ctx, "tell", a)
}

// ZooB is registered as group "zoob" of the BACK-END types only (chat.handler, hall.handler):
// a handler that never completes (hang) — a forwarded request survives it (the request timeout
// answers for the silent handler); front-local it leaves the client unanswered (reported, not run) —
// and the back-only twin of zoo.okboom.
type ZooB struct {
	api.APIEntry
}

// Hang is asynchronous and its continuation panics inside the service's timer (timer.Mgr recovers
// and swallows the panic): it never completes.
func (z *ZooB) Hang(ctx *impls.HandlerContext, a *Arg, cb apientry.HandlerCBFunc) {
	ns, _ := enter(ctx, "hang", a)
	ns.GetRunService().GetTimerMgr().After(1*time.Second, func(args ...interface{}) {
		panic("zoob: continuation failed")
	})
}

// Okboom completes and then panics in the same frame (see Zoo.Okboom).
func (z *ZooB) Okboom(ctx *impls.HandlerContext, a *Arg, cb apientry.HandlerCBFunc) {
	_, r := enter(ctx, "okboom", a)
	apientry.CheckInvokeCBFunc(cb, nil, r)
	panic("zoob: panic after completion")
}

// Scripted is the only group of the collection "frame.handler" (a service type without instances: no
// client route reaches it).  Op `frame body=<acts>` calls it through the REAL CallWithSerialize →
// APICollection.Call → APIContainer.CallMethod → SafeCall with a completion function shaped like the
// one of HandlerComponent.Process (error → error; else serializer.Marshal(ret), which PANICS for a
// *RetBoom).  The body executes its acts in order: c = complete with a result, m = complete with a
// *RetBoom (the completion function panics before it has recorded anything), e = complete with an
// error, p = panic.  Observation: what the completion function recorded, in order (d = data, e = error).
type Scripted struct {
	api.APIEntry
}

type ScriptArg struct {
	S string `json:"s"`
}

func (z *Scripted) Run(ctx *impls.HandlerContext, a *ScriptArg, cb apientry.HandlerCBFunc) {
	for _, ch := range a.S {
		switch ch {
		case 'c':
			apientry.CheckInvokeCBFunc(cb, nil, &Ret{S: "f", M: "run"})
		case 'm':
			apientry.CheckInvokeCBFunc(cb, nil, &RetBoom{})
		case 'e':
			apientry.CheckInvokeCBFunc(cb, errors.New("scripted failure"), nil)
		case 'p':
			panic("scripted panic")
		}
	}
}

func execFrame(body string) string {
	if body == "-" {
		body = ""
	}
	if strings.Trim(body, "cmep") != "" {
		return "bad-op"
	}
	col := registry.Registry.GetCollection("frame.handler")
	if col == nil {
		return "bad-op"
	}
	serializer := implcfg.GetConfig().Serializer
	var got []string
	cbFunc := func(e error, ret interface{}) {
		if e != nil {
			got = append(got, "e")
			return
		}
		if _, serr := serializer.Marshal(ret); serr != nil {
			got = append(got, "e")
			return
		}
		got = append(got, "d")
	}
	return hx.Guard(func() string {
		apientry.CallWithSerialize(col, nil, "scr.run", []byte(fmt.Sprintf(`{"s":%q}`, body)), cbFunc, serializer)
		return "done=" + strings.Join(got, "")
	})
}

// ---------------------------------------------------------------- world

type world struct {
	h       *hx.T
	n       *node.Node
	clients []*node.Client
}

var svcNames = []string{"gate-1", "chat-1", "chat-2", "hall-1", "hall-2"}

// members: node n2 (chat-2, hall-2; listed first) in the given state, node n1 (gate-1, chat-1,
// hall-1 and the ghost chat-9) always Working
func members(n2 int) []*cluster.Member {
	return []*cluster.Member{
		{Id: "c@n2", Host: "h", Port: 2, State: n2, Services: []string{"chat.chat-2", "hall.hall-2"}},
		{Id: "c@n1", Host: "h", Port: 1, State: int(define.Working),
			Services: []string{"gate.gate-1", "chat.chat-1", "hall.hall-1", "chat.chat-9"}},
	}
}

func start(h *hx.T) *world {
	for _, t := range []string{"gate", "chat", "hall"} {
		node.RegisterHandler(t, &Zoo{}, "zoo")
		if t != "gate" {
			node.RegisterHandler(t, &ZooB{}, "zoob")
		}
	}
	node.RegisterHandler("frame", &Scripted{}, "scr")
	// type chat is routed by the session key chatid, read the way application route functions read
	// it (chat2: an unchecked type assertion): a key that holds something else than a string — a
	// back-end pushed it as a JSON number — makes the route function PANIC; RouteService.doRoute
	// recovers and answers "" (no target → error response)
	node.Route("chat", func(serverType string, p noderoute.IRouteParam) string {
		if p == nil {
			return noderoute.NoService
		}
		v := p.Get("chatid", "").(string)
		if v == "" {
			return noderoute.NoService
		}
		return v
	})
	// every session reads its packets through the TCP acceptor's REAL PlayerConn (GetNextMessage = its
	// stream reassembly), built by the real accept loop around the server end of the pipe (rig_test.go;
	// no overlay shim, no unexported identifier named)
	if rig != nil && rig.mode == "listener-swap" {
		node.Framing = rig.playerConn
		h.Count("whitebox=listener-swap")
	} else {
		node.Framing = nil // the engine's verbatim copy of the framing
		h.Count("whitebox=unavailable:tcp-framing")
	}
	n := node.Start(node.Options{
		Services: []node.Svc{{Name: "gate-1", Type: "gate", Front: true}, {Name: "chat-1", Type: "chat"},
			{Name: "chat-2", Type: "chat"}, {Name: "hall-1", Type: "hall"}, {Name: "hall-2", Type: "hall"}},
		// chat-9 is listed in the directory but no actor lives behind its PID
		Members: members(int(define.Working)),
	})
	return &world{h: h, n: n}
}

func payload(p string) []byte {
	switch {
	case p == "null":
		return []byte("null")
	case p == "empty":
		return nil
	case p == "badtype":
		return []byte(`{"v":"x"}`)
	case strings.HasPrefix(p, "v"):
		if n, err := strconv.ParseUint(p[1:], 10, 64); err == nil {
			return []byte(fmt.Sprintf(`{"v":%d}`, n))
		}
	}
	return []byte(`{"v":`)
}

// route unescapes %xx (raw bytes, used to send routes that are not valid UTF-8)
func route(r string) string {
	if !strings.Contains(r, "%") {
		return r
	}
	var b []byte
	for i := 0; i < len(r); i++ {
		if r[i] == '%' && i+2 < len(r) {
			if v, err := strconv.ParseUint(r[i+1:i+3], 16, 8); err == nil {
				b = append(b, byte(v))
				i += 2
				continue
			}
		}
		b = append(b, r[i])
	}
	return string(b)
}

func (w *world) collect() string {
	var rs, is []string
	for i, c := range w.clients {
		for _, m := range c.Take() {
			switch m.Kind {
			case "handshake", "heartbeat":
			case "response":
				rs = append(rs, fmt.Sprintf("%d:resp:%d:%d:%s", i, m.ID, hx.B2i(m.Err), hx.Hex(m.Data)))
			default:
				rs = append(rs, fmt.Sprintf("%d:%s:%d:%d:%s", i, m.Kind, m.ID, hx.B2i(m.Err), hx.Hex(m.Data)))
			}
		}
		if c.Closed() {
			rs = append(rs, fmt.Sprintf("%d:closed:0:0:", i))
		}
	}
	for _, s := range svcNames {
		is = append(is, w.n.TakeLog(s)...)
	}
	sort.Strings(rs)
	sort.Strings(is)
	return "r=" + strings.Join(rs, ",") + " i=" + strings.Join(is, ",")
}

// accept: k clients connect together through the real accept loop, then each handshakes; lists the
// connections that were not served by exactly one session or got no handshake response
func (w *world) accept(k int) string {
	var odd []string
	for _, c := range w.n.Accept("gate-1", k) {
		ok := c.Open()
		hs := 0
		for _, m := range c.Take() {
			if m.Kind == "handshake" {
				hs++
			}
		}
		if !ok || c.Served != 1 || hs != 1 || c.Stuck() {
			odd = append(odd, fmt.Sprintf("%d:%d:%d", len(w.clients), c.Served, hs))
		}
		w.clients = append(w.clients, c)
	}
	if len(odd) > 0 {
		return "ok conn=" + strings.Join(odd, ",")
	}
	return "ok"
}

func (w *world) exec(op string) string {
	ws := hx.Words(op)
	if len(ws) == 0 {
		return "bad-op"
	}
	switch ws[0] {
	case "reset":
		for _, c := range w.clients {
			c.Close()
		}
		w.clients = nil
		w.n.SetTopology(members(int(define.Working)))
		// whatever an earlier (possibly truncated) case left in flight is over after 45 s
		w.n.Advance(45 * time.Second)
		for _, s := range svcNames {
			w.n.TakeLog(s)
		}
		nc := hx.KVInt(ws, "nc")
		if nc < 1 || nc > 8 {
			return "bad-op"
		}
		// the nc clients connect at the same moment: their connections are queued together in the
		// acceptor's channel and turned into sessions by the REAL accept loop (pomelo.StartAcceptor);
		// every connection must be served by exactly one session and answer the handshake
		return w.accept(nc)
	case "join":
		// n MORE clients connect at the same moment in the middle of a case (a reconnect storm while the
		// front has sessions and requests in flight): same path, same observation as reset
		k := hx.KVInt(ws, "n")
		if k < 1 || len(w.clients)+k > 8 {
			return "bad-op"
		}
		return w.accept(k)
	case "bind":
		i := hx.KVInt(ws, "c")
		to, ok := hx.KV(ws, "to")
		if i >= len(w.clients) || !ok {
			return "bad-op"
		}
		if to == "-" {
			to = ""
		}
		c := w.clients[i]
		// to=#<n> / to=#null: the key holds the NUMBER n / nil (what sys.pushsession stores for a JSON number / null), not a string
		var val interface{} = to
		if to == "#null" {
			val = nil // a JSON null
		} else if strings.HasPrefix(to, "#") {
			f, err := strconv.ParseFloat(to[1:], 64)
			if err != nil {
				return "bad-op"
			}
			val = f
		}
		w.n.RunOn("gate-1", func(ns *service.NodeService) {
			if fs := w.n.Sessions("gate-1").GetSession(c.NetId()); fs != nil {
				fs.Set("chatid", val)
			}
		})
		return "ok"
	case "reqs":
		q, _ := hx.KV(ws, "q")
		frames := map[int][]byte{}
		var order []int
		for _, item := range strings.Split(q, "|") {
			f := strings.Split(item, ",")
			if len(f) != 4 {
				continue
			}
			ci, e1 := strconv.Atoi(f[0])
			id, e2 := strconv.ParseUint(f[1], 10, 64)
			if e1 != nil || e2 != nil || ci < 0 || ci >= len(w.clients) {
				return "bad-op"
			}
			pk := w.clients[ci].Packet(&message.Message{Type: message.Request, ID: uint(id), Route: route(f[2]), Data: payload(f[3])})
			if _, seen := frames[ci]; !seen {
				order = append(order, ci)
			}
			frames[ci] = append(frames[ci], pk...)
		}
		// all clients write at once: their traffic is in flight together; frag=<k>: each client's
		// bytes reach the server in pieces of k bytes (TCP segments that arrive one by one: one
		// Read of the server never crosses a piece boundary)
		frag := 0
		if _, ok := hx.KV(ws, "frag"); ok {
			frag = hx.KVInt(ws, "frag")
		}
		var wg sync.WaitGroup
		for _, ci := range order {
			wg.Add(1)
			go func(ci int) {
				defer wg.Done()
				b := frames[ci]
				for frag > 0 && len(b) > frag {
					if !w.clients[ci].Write(b[:frag]) {
						return
					}
					b = b[frag:]
				}
				w.clients[ci].Write(b)
			}(ci)
		}
		wg.Wait()
		w.n.Wait()
		return w.collect()
	case "pipe":
		// a NEW connection whose handshake, ack and first messages are read by the session's
		// reader goroutine while the owner of the front is busy, i.e. BEFORE the posted
		// AddSession has run (repaired defect D20: the envelope's SessionId must still be right)
		i := hx.KVInt(ws, "c")
		if i != len(w.clients) {
			return "bad-op"
		}
		q, _ := hx.KV(ws, "q")
		release := make(chan struct{})
		w.n.RunOn("gate-1", func(ns *service.NodeService) { <-release }) // the owner is now occupied
		c := w.n.Accept("gate-1", 1)[0]                                   // through the accept loop: OnSessionCreate is posted, not run
		if c.Served != 1 {
			w.clients = append(w.clients, c)
			close(release)
			w.n.Wait()
			return fmt.Sprintf("r= i= conn=%d:%d:0", i, c.Served)
		}
		early := c.NetId() == 0
		ok := c.Open()
		var frame []byte
		for _, item := range strings.Split(q, "|") {
			f := strings.Split(item, ",")
			if len(f) != 4 {
				continue
			}
			id, err := strconv.ParseUint(f[1], 10, 64)
			if err != nil {
				continue
			}
			frame = append(frame, c.Packet(&message.Message{Type: message.Request, ID: uint(id), Route: route(f[2]), Data: payload(f[3])})...)
		}
		ok = c.SendRaw(frame) && ok
		early = early && c.NetId() == 0 // still not registered after everything was read
		close(release)
		w.n.Wait()
		w.clients = append(w.clients, c)
		if !ok || !early {
			return "bad-op"
		}
		return w.collect()
	case "hs", "ack":
		i := hx.KVInt(ws, "c")
		if i >= len(w.clients) {
			return "bad-op"
		}
		ok := false
		if ws[0] == "hs" {
			ok = w.clients[i].Handshake()
		} else {
			ok = w.clients[i].Ack()
		}
		if !ok {
			return "bad-op"
		}
		return "ok"
	case "wrap":
		// the front's service-request counter is set k below MaxReqId (unexported field, found by
		// behaviour: rig_test.go reqCounter; written on the owner goroutine): the next forwarded requests are numbered across the wrap
		k := hx.KVInt(ws, "k")
		w.n.RunOn("gate-1", func(ns *service.NodeService) {
			if p := reqCounter(ns.Service); p != nil {
				*p = as.MaxReqId - int32(k)
			} else {
				w.h.Count("whitebox=unavailable:req-counter")
			}
		})
		return "ok"
	case "flood":
		// the client stops reading, n requests are written back-to-back (more responses than the
		// session's send queue holds pile up behind the stalled connection), the client resumes
		i, n, id0, v0 := hx.KVInt(ws, "c"), hx.KVInt(ws, "n"), hx.KVInt(ws, "id0"), hx.KVInt(ws, "v0")
		rt, _ := hx.KV(ws, "route")
		if i >= len(w.clients) || n <= 0 || n > 50000 {
			return "bad-op"
		}
		c := w.clients[i]
		var frame []byte
		for k := 0; k < n; k++ {
			frame = append(frame, c.Packet(&message.Message{Type: message.Request, ID: uint(id0 + k), Route: route(rt),
				Data: []byte(fmt.Sprintf(`{"v":%d}`, v0+k))})...)
		}
		c.Stall()
		done := make(chan bool, 1)
		go func() { done <- c.Write(frame) }()
		w.n.Wait() // everything that can happen without the client reading has happened
		c.Resume()
		<-done
		w.n.Wait()
		return w.collect()
	case "topo":
		// the cluster view changes (real Cluster.UpdateClusterTopology): node n2 gets another state
		st, ok := hx.KV(ws, "n2")
		k, err := strconv.Atoi(st)
		if !ok || err != nil || k < 0 || k > 5 {
			return "bad-op"
		}
		w.n.SetTopology(members(k))
		w.n.Wait()
		return "ok"
	case "frame":
		b, ok := hx.KV(ws, "body")
		if !ok {
			return "bad-op"
		}
		return execFrame(b)
	case "adv":
		w.n.Advance(5 * time.Second)
		return w.collect()
	case "flush":
		w.n.Advance(45 * time.Second)
		return w.collect()
	}
	return "bad-op"
}

// ---------------------------------------------------------------- generator

var (
	types      = []string{"gate", "gate", "chat", "chat", "chat", "hall", "room"}
	groups     = []string{"zoo", "zoo", "zoo", "zoo", "zoo", "zoo", "zoo", "zoo", "nogrp", ""}
	methods    = []string{"echo", "echo", "echo", "fail", "boom", "slow", "slow", "late", "s29", "s33", "tell", "tell", "nan", "fail0", "login", "loginw", "okboom", "okboom", "mboom", "mboom", "slowboom", "nosuch", ""}
	// routes that are not valid UTF-8 (%xx = raw byte): a forwarded envelope can not be serialised
	badUTF8    = []string{"hall.zoo.ech%ff", "chat.zoo.%c3%28", "hall.%fezoo.echo", "chat.zoo.echo%80", "gate.zoo.ech%ff", "ha%ffll.zoo.echo"}
	malformed  = []string{"", ".", "..", "...", "gate", "gatezooecho", "gate.zoo", "chat.zoo", "gate.zoo.echo.x", "chat.zoo.echo.x", "a.b.c.d.e", "gate..", "chat..", "..echo", ".zoo.echo", "gate.zoo.", "chat..echo", "gate.zoo.echo.", ".gate.zoo.echo"}
	bindings   = []string{"chat-1", "chat-1", "chat-2", "chat-2", "chat-7", "chat-9", "gate-1", "hall-1", "-", "#7"}
	specialIDs = []uint64{0, 0, 1, 127, 128, 1<<32 - 1, 16383, 16384}
	// D19 (known finding C02/request-id-truncated): ids that do not fit the 32-bit envelope field
	bigIDs    = []uint64{1 << 32, 1<<32 + 5, 1<<33 + 1, 1<<64 - 1}
	bigRoutes = []string{"gate.zoo.echo", "gate.zoo.slow", "chat.zoo.echo", "chat.zoo.slow", "hall.zoo.echo"}
)

type gen struct {
	h    *hx.T
	v    int
	used map[int]map[uint64]bool
}

func (g *gen) route() string {
	r := g.h.R
	if r.Intn(40) == 0 {
		g.h.Count("route.badutf8")
		return badUTF8[r.Intn(len(badUTF8))]
	}
	if r.Intn(25) == 0 {
		// the back-only group: a handler that never completes / completes twice (at gate: no such group)
		rt := []string{"chat", "chat", "hall", "hall", "gate"}[r.Intn(5)] + ".zoob." + []string{"hang", "okboom", "okboom"}[r.Intn(3)]
		g.h.Count("route.zoob." + rt)
		return rt
	}
	if r.Intn(100) < 15 {
		g.h.Count("route.malformed")
		if r.Intn(3) == 0 {
			// random string over a small alphabet
			n := r.Intn(12)
			b := make([]byte, n)
			for i := range b {
				b[i] = "gate.zo.ch"[r.Intn(10)]
			}
			return string(b)
		}
		return malformed[r.Intn(len(malformed))]
	}
	t, gr, m := types[r.Intn(len(types))], groups[r.Intn(len(groups))], methods[r.Intn(len(methods))]
	g.h.Count("route.type." + t)
	g.h.Count("route.method." + gr + "." + m)
	return t + "." + gr + "." + m
}

func (g *gen) item(nc int) string {
	r := g.h.R
	c := r.Intn(nc)
	if g.used[c] == nil {
		g.used[c] = map[uint64]bool{}
	}
	// ids are unique per connection and case, also modulo 2^32 (what the envelope carries)
	free := func(id uint64) bool { return !g.used[c][id] && (id%(1<<32) == 0 || !g.used[c][id%(1<<32)]) }
	take := func(id uint64) {
		g.used[c][id] = true
		if id%(1<<32) != 0 {
			g.used[c][id%(1<<32)] = true
		}
	}
	if r.Intn(64) == 0 {
		id := bigIDs[r.Intn(len(bigIDs))]
		if free(id) {
			take(id)
			g.v++
			g.h.Count("msg.request.id>=2^32")
			return fmt.Sprintf("%d,%d,%s,v%d", c, id, bigRoutes[r.Intn(len(bigRoutes))], g.v)
		}
	}
	var id uint64
	if r.Intn(3) == 0 {
		id = specialIDs[r.Intn(len(specialIDs))]
	} else {
		id = uint64(1 + r.Intn(1000000))
	}
	for id != 0 && !free(id) {
		id = uint64(1 + r.Intn(1000000))
	}
	if id != 0 {
		take(id)
		g.h.Count("msg.request")
	} else {
		g.h.Count("msg.notify")
	}
	var pay string
	switch k := r.Intn(100); {
	case k < 80:
		g.v++
		pay = fmt.Sprintf("v%d", g.v)
	case k < 86:
		pay = "bad"
	case k < 91:
		pay = "empty"
	case k < 95:
		pay = "badtype"
	default:
		pay = "null"
	}
	g.h.Count("pay." + strings.TrimRight(pay, "0123456789"))
	return fmt.Sprintf("%d,%d,%s,%s", c, id, g.route(), pay)
}

var pipeRoutes = []string{"hall.zoo.echo", "hall.zoo.echo", "hall.zoo.slow", "hall.zoo.tell", "hall.zoo.fail", "hall.zoo.late",
	"gate.zoo.echo", "gate.zoo.slow", "gate.zoo.tell", "chat.zoo.echo", "room.zoo.echo", "hall.zoo.nosuch", "gate.zoo",
	"gate.zoo.okboom", "gate.zoo.mboom", "hall.zoo.okboom", "hall.zoo.mboom"}

// a message of a pipelined new client c: request or notify, front-local (gate) or forwarded
// (hall: no binding needed), a few unserviceable ones
func (g *gen) pipeItem(c int) string {
	r := g.h.R
	if g.used[c] == nil {
		g.used[c] = map[uint64]bool{}
	}
	var id uint64
	if r.Intn(4) != 0 {
		id = uint64(1 + r.Intn(1000000))
		for g.used[c][id] {
			id = uint64(1 + r.Intn(1000000))
		}
		g.used[c][id] = true
	}
	g.v++
	rt := pipeRoutes[r.Intn(len(pipeRoutes))]
	g.h.Count("pipe.route." + rt)
	return fmt.Sprintf("%d,%d,%s,v%d", c, id, rt, g.v)
}

// one case: reset, then binds / request bursts / time steps, then flush
func (g *gen) genCase() []string {
	r := g.h.R
	nc := 1 + r.Intn(3)
	g.used = map[int]map[uint64]bool{}
	g.v = 0
	ops := []string{fmt.Sprintf("reset nc=%d", nc)}
	if r.Intn(12) == 0 {
		// nothing is in flight right after a reset: the counter may jump without id collisions
		g.h.Count("wrap")
		ops = append(ops, fmt.Sprintf("wrap k=%d", 1+r.Intn(4)))
	}
	hsing := map[int]bool{}
	// most clients start bound so that forwarding is the common path
	for c := 0; c < nc; c++ {
		if r.Intn(4) != 0 {
			ops = append(ops, fmt.Sprintf("bind c=%d to=%s", c, bindings[r.Intn(len(bindings))]))
		}
	}
	steps := 3 + r.Intn(8)
	for i := 0; i < steps; i++ {
		if nc < 5 && r.Intn(16) == 0 {
			// a new client pipelines its first messages behind the handshake while the front is busy
			n := 1 + r.Intn(4)
			items := make([]string, n)
			for j := range items {
				items[j] = g.pipeItem(nc)
			}
			g.h.Count("pipe")
			ops = append(ops, fmt.Sprintf("pipe c=%d q=%s", nc, strings.Join(items, "|")))
			nc++
			continue
		}
		if nc < 5 && r.Intn(24) == 0 {
			k := 1 + r.Intn(2)
			g.h.Count(fmt.Sprintf("join.%d", k))
			ops = append(ops, fmt.Sprintf("join n=%d", k))
			nc += k
			continue
		}
		if r.Intn(20) == 0 {
			// the synchronous frame of a request handler, driven directly: 0-4 acts
			n := r.Intn(5)
			b := make([]byte, n)
			for j := range b {
				b[j] = "ccmepp"[r.Intn(6)]
			}
			body := string(b)
			if body == "" {
				body = "-"
			}
			g.h.Count(fmt.Sprintf("frame.len%d", n))
			ops = append(ops, "frame body="+body)
			continue
		}
		if r.Intn(14) == 0 {
			// node n2 (chat-2, hall-2) changes state: Init / Working / Retiring / Retired
			st := []int{0, 1, 1, 2, 2, 3}[r.Intn(6)]
			g.h.Count(fmt.Sprintf("topo.n2=%d", st))
			ops = append(ops, fmt.Sprintf("topo n2=%d", st))
			continue
		}
		if r.Intn(12) == 0 {
			// re-handshake / ack on a working connection (responses in flight must still arrive)
			c := r.Intn(nc)
			if hsing[c] {
				delete(hsing, c)
				ops = append(ops, fmt.Sprintf("ack c=%d", c))
			} else {
				hsing[c] = true
				g.h.Count("rehandshake")
				ops = append(ops, fmt.Sprintf("hs c=%d", c))
				if r.Intn(2) == 0 {
					ops = append(ops, "adv")
				}
			}
			continue
		}
		switch k := r.Intn(100); {
		case k < 15:
			b := bindings[r.Intn(len(bindings))]
			g.h.Count("bind." + b)
			ops = append(ops, fmt.Sprintf("bind c=%d to=%s", r.Intn(nc), b))
		case k < 85:
			n := 1
			if r.Intn(3) == 0 {
				n = 2 + r.Intn(5)
			}
			g.h.Count(fmt.Sprintf("burst.%d", n))
			items := make([]string, n)
			for j := range items {
				items[j] = g.item(nc)
			}
			fr := ""
			if r.Intn(4) == 0 {
				// the burst arrives in small pieces (packet heads and bodies split across reads)
				k := []int{1, 2, 3, 5, 7, 16, 64}[r.Intn(7)]
				g.h.Count("burst.fragmented")
				fr = fmt.Sprintf("frag=%d ", k)
			}
			ops = append(ops, "reqs "+fr+"q="+strings.Join(items, "|"))
		default:
			ops = append(ops, "adv")
		}
	}
	return append(ops, "flush")
}

// every route built from 1..4 segments out of {gate, chat, zoo, echo, ""}: as request and as notify
func exhaustiveRoutes(w *world) int {
	segs := []string{"gate", "chat", "zoo", "echo", ""}
	var routes []string
	var rec func(parts []string, k int)
	rec = func(parts []string, k int) {
		if k == 0 {
			routes = append(routes, strings.Join(parts, "."))
			return
		}
		for _, s := range segs {
			rec(append(parts, s), k-1)
		}
	}
	for k := 1; k <= 4; k++ {
		rec(nil, k)
	}
	n := 0
	for start := 0; start < len(routes); start += 40 {
		end := start + 40
		if end > len(routes) {
			end = len(routes)
		}
		ops := []string{"reset nc=1", "bind c=0 to=chat-2"}
		v := 0
		for _, rt := range routes[start:end] {
			v++
			ops = append(ops, fmt.Sprintf("reqs q=0,%d,%s,v%d|0,0,%s,v%d", v, rt, v, rt, v+1000))
		}
		ops = append(ops, "flush")
		for _, op := range ops {
			w.h.Emit(op, w.exec(op))
		}
		n += end - start
	}
	return n
}

// "-" (the empty body) and every string over c, m, e, p of length 1..k
func allBodies(k int) []string {
	out := []string{"-"}
	prev := []string{""}
	for i := 0; i < k; i++ {
		var next []string
		for _, p := range prev {
			for _, ch := range "cmep" {
				next = append(next, p+string(ch))
			}
		}
		out = append(out, next...)
		prev = next
	}
	return out
}

// rig: the TCP acceptor's accept loop serving a stand-in listener; assembled outside the bubble
var rig *tcpRig

func TestRun(t *testing.T) {
	rig = newTCPRig()
	synctest.Test(t, func(t *testing.T) {
		h := hx.Open()
		w := start(h)
		if ops := hx.ReplayOps(); ops != nil {
			for _, op := range ops {
				h.Emit(op, w.exec(op))
			}
			node.Finish(h)
		}
		for _, op := range hx.CorpusOps("corpus/C02") {
			h.Emit(op, w.exec(op))
		}
		// a client that pipelines more requests than its session's send queue (9999) holds while it is not reading
		for _, op := range []string{"reset nc=2", "bind c=1 to=chat-2", "reqs q=1,1,chat.zoo.slow,v1",
			"flood c=0 n=10080 id0=1 v0=100 route=gate.zoo.echo", "reqs q=0,20000,hall.zoo.echo,v2|1,2,chat.zoo.echo,v3", "flush"} {
			h.Count("flood")
			h.Emit(op, w.exec(op))
		}
		// every handler frame of up to 3 acts (85 bodies), driven directly through CallMethod / SafeCall
		h.Emit("reset nc=1", w.exec("reset nc=1"))
		for _, body := range allBodies(3) {
			h.Count("frame.exhaustive")
			op := "frame body=" + body
			h.Emit(op, w.exec(op))
		}
		g := &gen{h: h}
		n := hx.EnvInt("VERIF_N", 200)
		for i := 0; i < n; i++ {
			for _, op := range g.genCase() {
				h.Emit(op, w.exec(op))
			}
		}
		if hx.Env("VERIF_EXHAUSTIVE", "") != "" {
			k := exhaustiveRoutes(w)
			h.Count(fmt.Sprintf("exhaustive.routes.%d", k))
		}
		node.Finish(h)
	})
}
