// Package node is the shared "bubble-node" engine (DESIGN.md §2.3): it
// assembles, in one process and inside a testing/synctest bubble, a whole
// single-process cell2 node from the REAL components — app.Node with its
// cluster view, a local proto.actor system, front and back NodeServices built
// exactly like _examples/chat2 builds them (NewServiceWithDispatcher + post
// funcs adding the common components and, for a front-end, what
// pomelo.ServiceCreateAcceptors adds minus the socket acceptors), real
// session.ClientSession objects over an in-memory acceptor.PlayerConn — and a
// scripted raw pomelo client per connection.  Bypassed (hence not covered):
// TCP/WS socket listeners, actor `remote`, etcd.  Node.Connect builds the session
// directly; Node.Accept queues connections in an in-memory acceptor.Acceptor and
// lets the REAL accept loop pomelo.StartAcceptor build the sessions.
//
// Usage (inside synctest.Test):
//
//	node.RegisterHandler("gate", &GateEntry{}, "zoo")   // <type>.handler, before Start
//	node.RegisterRemote("chat", &ChatRemote{}, "rpc")   // <type>.remote
//	node.RouteBySessionKey("chat", "chatid")
//	n := node.Start(node.Options{Services: []node.Svc{{"gate-1", "gate", true}, {"chat-1", "chat", false}}})
//	c := n.Connect("gate-1"); c.Open()
//	c.Request(1, "chat.zoo.echo", []byte(`{"v":1}`)); n.Wait()
//	for _, m := range c.Take() { ... }
//	n.Advance(31 * time.Second)
//	node.Finish(h)        // never returns
//
// ONE node per process: cell2 services never stop their run-service loop and
// scheduler/actor names are global, so a second Start would share them.
package node

import (
	"fmt"
	"io"
	"log"
	"log/slog"
	"os"
	"strings"
	"sync"
	"syscall"
	"testing/synctest"
	"time"

	"github.com/asynkron/protoactor-go/actor"
	"github.com/sirupsen/logrus"

	as "github.com/dfklegend/cell2/actorex/service"
	api "github.com/dfklegend/cell2/apimapper"
	"github.com/dfklegend/cell2/apimapper/apientry"
	"github.com/dfklegend/cell2/apimapper/registry"
	"github.com/dfklegend/cell2/node/app"
	"github.com/dfklegend/cell2/node/builtin"
	"github.com/dfklegend/cell2/node/client/impls"
	cs "github.com/dfklegend/cell2/node/client/session"
	"github.com/dfklegend/cell2/node/cluster"
	"github.com/dfklegend/cell2/node/config"
	"github.com/dfklegend/cell2/node/route"
	"github.com/dfklegend/cell2/node/service"
	"github.com/dfklegend/cell2/nodectrl/define"
	"github.com/dfklegend/cell2/utils/logger"
)

// Svc describes one service of the node.
type Svc struct {
	Name  string // e.g. "gate-1"
	Type  string // e.g. "gate"
	Front bool   // owns client sessions (handler + forwarder + sessions components)
}

// Options of Start.
type Options struct {
	Services []Svc
	// Members overrides the cluster view (default: one working member
	// "c@n1" at h:1 carrying every service as "<type>.<name>").
	Members []*cluster.Member
	// Verbose keeps cell2's logging on (default: silenced).
	Verbose bool
}

// Node is the assembled node.
type Node struct {
	System *actor.ActorSystem
	svcs   map[string]*svc
	order  []string

	mu      sync.Mutex
	logs    map[string][]string
	clients []*Client
	// in-memory acceptors started by Accept, per front service
	acceptors map[string]*memAcceptor
}

type svc struct {
	info     Svc
	cfg      *config.ServiceInfo
	pid      *actor.PID
	ns       *service.NodeService
	sessions *impls.ClientSessions
}

// svcActor is the actor of every engine service: a NodeService owner, like
// chat2's gate.Service.
type svcActor struct {
	*service.NodeService
}

func (s *svcActor) GetNodeService() *service.NodeService { return s.NodeService }

var current *Node

// Current returns the node of this process (nil before Start).
func Current() *Node { return current }

// ---------------------------------------------------------------- registration (before Start)

// RegisterHandler adds a client-facing API entry to "<svcType>.handler"
// (method names lower-cased, as in the chat2 example): client route
// "<svcType>.<group>.<method>".
func RegisterHandler(svcType string, entry api.IAPIEntry, group string) {
	registry.Registry.AddCollection(app.MakeName(svcType, "handler")).
		Register(entry, apientry.WithGroupName(group), apientry.WithNameFunc(strings.ToLower))
}

// RegisterRemote adds a service-to-service API entry to "<svcType>.remote":
// route "<group>.<method>" of RequestEx / app.Request.
func RegisterRemote(svcType string, entry api.IAPIEntry, group string) {
	registry.Registry.AddCollection(app.MakeName(svcType, "remote")).
		Register(entry, apientry.WithGroupName(group), apientry.WithNameFunc(strings.ToLower))
}

// Route registers a route function for a service type (node/route).
func Route(svcType string, f route.RouteFunc) {
	route.GetRouteService().Register(svcType, f)
}

// RouteBySessionKey routes svcType by the string stored under `key` in the
// session (front session or route map): the value IS the instance name; a
// missing / non-string / empty value yields route.NoService.
func RouteBySessionKey(svcType, key string) {
	Route(svcType, func(serverType string, p route.IRouteParam) string {
		if p == nil {
			return route.NoService
		}
		v, _ := p.Get(key, "").(string)
		if v == "" {
			return route.NoService
		}
		return v
	})
}

// ---------------------------------------------------------------- start

// Start builds and starts the node. Call it inside the synctest bubble.
func Start(o Options) *Node {
	if current != nil {
		panic("node.Start: one node per process")
	}
	if !o.Verbose {
		logger.SetLogLevel(logrus.PanicLevel)
		if p := logger.GetLogProxy("exception"); p != nil {
			p.SetLogLevel(logrus.PanicLevel)
		}
		log.SetOutput(io.Discard)
	}
	n := &Node{svcs: map[string]*svc{}, logs: map[string][]string{}}

	// configuration files read by the real app.Node.Prepare
	dir, err := os.MkdirTemp("", "cell2node")
	if err != nil {
		panic(err)
	}
	var y strings.Builder
	y.WriteString("nodes:\n  n1:\n    address: \"h:1\"\n    services:\n")
	for _, s := range o.Services {
		fmt.Fprintf(&y, "      - %s\n", s.Name)
	}
	y.WriteString("services:\n")
	for _, s := range o.Services {
		fmt.Fprintf(&y, "  %s:\n    type: %s\n    frontend: %v\n", s.Name, s.Type, s.Front)
	}
	os.WriteFile(dir+"/nodes.yaml", []byte(y.String()), 0o644)
	os.WriteFile(dir+"/cluster.yaml", []byte("enable: false\nnodectrl: false\nname: c\n"), 0o644)
	os.WriteFile(dir+"/master.yaml", []byte("address: \"\"\n"), 0o644)
	app.Node.Prepare(dir)
	os.RemoveAll(dir)

	// API registry: sys.* entries + whatever the harness registered
	builtin.Visit()
	for _, s := range o.Services {
		registry.Registry.AddCollection(app.MakeName(s.Type, "handler"))
		registry.Registry.AddCollection(app.MakeName(s.Type, "remote"))
	}
	registry.Registry.Build()

	// local actor system; directory PIDs (host:port/name) resolve to local actors
	var system *actor.ActorSystem
	if o.Verbose {
		system = actor.NewActorSystem()
	} else {
		system = actor.NewActorSystemWithConfig(actor.Configure(actor.WithLoggerFactory(func(*actor.ActorSystem) *slog.Logger {
			return slog.New(slog.NewTextHandler(io.Discard, nil))
		})))
	}
	system.ProcessRegistry.RegisterAddressResolver(func(pid *actor.PID) (actor.Process, bool) {
		return system.ProcessRegistry.GetLocal(pid.Id)
	})
	app.Node.SetActorSystem(system)
	n.System = system

	// cluster view through the real Cluster
	names := make([]string, 0, len(o.Services))
	full := make([]string, 0, len(o.Services))
	for _, s := range o.Services {
		names = append(names, s.Name)
		full = append(full, s.Type+"."+s.Name)
	}
	app.Node.GetCluster().InitSelf("h:1", app.Node.GetClusterCfg(), "n1", names, app.Node.GetNodes().Services)
	members := o.Members
	if members == nil {
		members = []*cluster.Member{{Id: "c@n1", Host: "h", Port: 1, State: int(define.Working), Services: full}}
	}
	app.Node.GetCluster().UpdateClusterTopology(members)

	// services, created the way chat2's gate.Creator does
	for _, s := range o.Services {
		sv := &svc{info: s, cfg: app.Node.GetServiceCfg(s.Name)}
		if sv.cfg == nil {
			panic("node.Start: no service cfg for " + s.Name)
		}
		n.svcs[s.Name] = sv
		n.order = append(n.order, s.Name)
		name, info := s.Name, s
		props, ext := service.NewServiceWithDispatcher(func() actor.Actor {
			a := &svcActor{NodeService: service.NewService()}
			a.Service.InitReqReceiver(a)
			return a
		}, name, app.MakeName(s.Type, "remote"))
		ext.WithPostFunc(func(s as.IService) {
			owner, _ := s.(service.INodeServiceOwner)
			ns := owner.GetNodeService()
			sv.ns = ns
			impls.ServiceCreateCommonComponents(ns, app.Node.GetServiceCfg(name))
			if info.Front {
				// pomelo.ServiceCreateAcceptors minus the TCP/WS acceptors
				sessions := impls.NewClientSessions(name)
				handler, _ := ns.GetComponent("handler").(*impls.HandlerComponent)
				forwarder := impls.NewForwarder()
				ns.AddComponent("sessions", impls.NewSessionsComponent(sessions))
				ns.AddComponent("forwarder", forwarder)
				sessions.SetHandler(handler)
				handler.SetForwarder(forwarder)
				sv.sessions = sessions
			}
		})
		pid, err := system.Root.SpawnNamed(props, name)
		if err != nil {
			panic(err)
		}
		sv.pid = pid
		service.StartNodeService(system.Root, pid, name, app.Node.GetServiceCfg(name))
	}
	current = n
	synctest.Wait()
	for _, name := range n.order {
		if n.svcs[name].ns == nil || n.svcs[name].ns.Name != name {
			panic("node.Start: service did not start: " + name)
		}
	}
	return n
}

// ---------------------------------------------------------------- accessors

// Service returns the NodeService of a service (touch it only inside RunOn).
func (n *Node) Service(name string) *service.NodeService {
	if s := n.svcs[name]; s != nil {
		return s.ns
	}
	return nil
}

// PID returns the local actor PID of a service.
func (n *Node) PID(name string) *actor.PID {
	if s := n.svcs[name]; s != nil {
		return s.pid
	}
	return nil
}

// Sessions returns the ClientSessions of a front service (touch inside RunOn).
func (n *Node) Sessions(front string) *impls.ClientSessions {
	if s := n.svcs[front]; s != nil {
		return s.sessions
	}
	return nil
}

// Names lists the services in creation order.
func (n *Node) Names() []string { return append([]string(nil), n.order...) }

// SetTopology replaces the cluster view (real Cluster.UpdateClusterTopology).
func (n *Node) SetTopology(members []*cluster.Member) {
	app.Node.GetCluster().UpdateClusterTopology(members)
}

// ---------------------------------------------------------------- time / scheduling

// Wait returns when every goroutine of the bubble is durably blocked.
func (n *Node) Wait() { synctest.Wait() }

// Advance lets d of virtual time pass (in slices of at most 5 s; after each
// slice every open client with AutoHeartbeat sends a heartbeat, so sessions
// survive) and waits for quiescence.
func (n *Node) Advance(d time.Duration) {
	for d > 0 {
		step := d
		if step > 5*time.Second {
			step = 5 * time.Second
		}
		time.Sleep(step)
		d -= step
		synctest.Wait()
		n.mu.Lock()
		live := n.clients[:0]
		for _, c := range n.clients {
			c.mu.Lock()
			dead := c.gone || c.closed
			c.mu.Unlock()
			if !dead {
				live = append(live, c)
			}
		}
		n.clients = live
		cl := append([]*Client(nil), live...)
		n.mu.Unlock()
		for _, c := range cl {
			if c.AutoHeartbeat && c.opened {
				c.Heartbeat()
			}
		}
		synctest.Wait()
	}
}

// RunOn executes f on the service's own goroutine (posted to its run-service
// scheduler, like any cell2 code that wants to enter a service) and waits for
// quiescence.
func (n *Node) RunOn(name string, f func(ns *service.NodeService)) {
	s := n.svcs[name]
	if s == nil {
		panic("node.RunOn: unknown service " + name)
	}
	s.ns.GetRunService().GetScheduler().Post(func() { f(s.ns) })
	synctest.Wait()
}

// ---------------------------------------------------------------- invocation logs

// Record appends a line to the invocation log of a service (called by the
// harness's handlers; safe from any goroutine).
func (n *Node) Record(svcName, line string) {
	n.mu.Lock()
	n.logs[svcName] = append(n.logs[svcName], line)
	n.mu.Unlock()
}

// Record on the current node.
func Record(svcName, line string) {
	if current != nil {
		current.Record(svcName, line)
	}
}

// TakeLog returns and clears the invocation log of a service.
func (n *Node) TakeLog(svcName string) []string {
	n.mu.Lock()
	l := n.logs[svcName]
	delete(n.logs, svcName)
	n.mu.Unlock()
	return l
}

// Log returns a copy of the invocation log of a service.
func (n *Node) Log(svcName string) []string {
	n.mu.Lock()
	defer n.mu.Unlock()
	return append([]string(nil), n.logs[svcName]...)
}

// NSOf extracts the NodeService a handler / remote method runs in from its
// context argument (*impls.HandlerContext or *as.RemoteContext).
func NSOf(ctx api.IContext) *service.NodeService {
	var ac actor.Context
	switch c := ctx.(type) {
	case *impls.HandlerContext:
		ac = c.ActorContext
	case *as.RemoteContext:
		ac = c.ActorContext
	}
	if ac == nil {
		return nil
	}
	if o, ok := ac.Actor().(service.INodeServiceOwner); ok {
		return o.GetNodeService()
	}
	return nil
}

// SessionOf returns the server session (front or back) of a handler context.
func SessionOf(ctx api.IContext) cs.IServerSession {
	if c, ok := ctx.(*impls.HandlerContext); ok {
		return c.Session
	}
	return nil
}

// ---------------------------------------------------------------- end of run

// Finish flushes the trace (any value with Close()) and exits the process:
// services never stop their loops, so the bubble can not be left normally.
func Finish(closer interface{ Close() }) {
	if closer != nil {
		closer.Close()
	}
	syscall.Exit(0)
}
