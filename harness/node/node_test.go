package node

// Smoke test of the engine (run: go1.26 test -vet=off -tags verif ./node -run TestSmoke -v):
// one client: handshake, a front-local request, a forwarded request to chat-1,
// a push from chat-1, a request with an unknown method, a forward timeout.

import (
	"fmt"
	"os"
	"testing"
	"testing/synctest"
	"time"

	api "github.com/dfklegend/cell2/apimapper"
	"github.com/dfklegend/cell2/apimapper/apientry"
	"github.com/dfklegend/cell2/node/app"
	"github.com/dfklegend/cell2/node/client/impls"
	cs "github.com/dfklegend/cell2/node/client/session"
	"github.com/dfklegend/cell2/node/service"
)

type smokeArg struct {
	V int `json:"v"`
}
type smokeRet struct {
	S string `json:"s"`
	V int    `json:"v"`
}

type SmokeEntry struct {
	api.APIEntry
}

func (e *SmokeEntry) Echo(ctx *impls.HandlerContext, a *smokeArg, cb apientry.HandlerCBFunc) {
	ns := NSOf(ctx)
	Record(ns.Name, fmt.Sprintf("echo v=%d", a.V))
	apientry.CheckInvokeCBFunc(cb, nil, &smokeRet{S: ns.Name, V: a.V})
}

func (e *SmokeEntry) Pushme(ctx *impls.HandlerContext, a *smokeArg, cb apientry.HandlerCBFunc) {
	ns := NSOf(ctx)
	Record(ns.Name, fmt.Sprintf("pushme v=%d", a.V))
	if bs, ok := ctx.Session.(*cs.BackSession); ok {
		app.PushMessageById(ns, bs.ServerId, bs.NetId, "onpush", &smokeRet{S: ns.Name, V: a.V})
	}
	apientry.CheckInvokeCBFunc(cb, nil, &smokeRet{S: ns.Name, V: -a.V})
}

func (e *SmokeEntry) Never(ctx *impls.HandlerContext, a *smokeArg, cb apientry.HandlerCBFunc) {
	Record(NSOf(ctx).Name, "never")
}

func (e *SmokeEntry) Tell(ctx *impls.HandlerContext, a *smokeArg) {
	Record(NSOf(ctx).Name, fmt.Sprintf("tell v=%d", a.V))
}

func TestSmoke(t *testing.T) {
	synctest.Test(t, func(t *testing.T) {
		t0 := time.Now()
		RegisterHandler("gate", &SmokeEntry{}, "zoo")
		RegisterHandler("chat", &SmokeEntry{}, "zoo")
		RouteBySessionKey("chat", "chatid")
		n := Start(Options{Services: []Svc{{"gate-1", "gate", true}, {"chat-1", "chat", false}, {"chat-2", "chat", false}}})
		c := n.Connect("gate-1")
		fmt.Println("open", c.Open(), "netid", c.NetId())
		show := func(tag string) {
			for _, m := range c.Take() {
				fmt.Printf("%s: %s id=%d route=%s err=%v data=%s\n", tag, m.Kind, m.ID, m.Route, m.Err, m.Data)
			}
		}
		show("hs")
		c.Request(1, "gate.zoo.echo", []byte(`{"v":7}`))
		show("local")
		c.Request(2, "chat.zoo.echo", []byte(`{"v":8}`))
		show("unbound")
		n.RunOn("gate-1", func(ns *service.NodeService) {
			n.Sessions("gate-1").GetSession(c.NetId()).Set("chatid", "chat-1")
		})
		c.Request(3, "chat.zoo.echo", []byte(`{"v":9}`))
		show("fwd")
		c.Request(4, "chat.zoo.pushme", []byte(`{"v":10}`))
		show("push")
		c.Request(5, "chat.zoo.nosuch", []byte(`{"v":10}`))
		show("unknown")
		c.Request(6, "chat.zoo.tell", []byte(`{"v":11}`))
		show("req->notify")
		c.Notify("chat.zoo.tell", []byte(`{"v":12}`))
		c.Request(0, "gate.zoo.tell", []byte(`{"v":13}`))
		show("notify")
		c.Request(7, "chat.zoo.never", []byte(`{"v":1}`))
		show("never(before)")
		n.Advance(31 * time.Second)
		show("never(after 31s)")
		fmt.Println("closed", c.Closed(), "virtual", time.Since(t0))
		for _, s := range n.Names() {
			fmt.Println("log", s, n.TakeLog(s))
		}
		os.Stdout.Sync()
		Finish(nil)
	})
}
