package node

import (
	"errors"
	"io"
	"io/ioutil"
	"net"
	"os"
	"reflect"
	"runtime"
	"sync"
	"testing/synctest"
	"time"
	"unsafe"

	"github.com/dfklegend/cell2/node/client/impls/pomelo"
	"github.com/dfklegend/cell2/pomelonet/common/conn/codec"
	"github.com/dfklegend/cell2/pomelonet/common/conn/message"
	"github.com/dfklegend/cell2/pomelonet/common/conn/packet"
	"github.com/dfklegend/cell2/pomelonet/constants"
	pi "github.com/dfklegend/cell2/pomelonet/interfaces"
	"github.com/dfklegend/cell2/pomelonet/server/acceptor"
	"github.com/dfklegend/cell2/pomelonet/server/session"
)

// pipeConn is acceptor.PlayerConn over one end of net.Pipe(): the framing is
// the 12 lines of tcpPlayerConn.GetNextMessage (tcp_acceptor.go), verbatim.
type pipeConn struct {
	net.Conn
	mu     sync.Mutex
	stall  chan struct{}       // non-nil: the server→client direction is stalled; closed on resume
	framer acceptor.PlayerConn // non-nil: GetNextMessage is the framer's (see Framing)
}

// Framing, when set before Connect, supplies the framing of the server end of every new
// connection: GetNextMessage of the returned PlayerConn (built around the raw server end of the
// pipe) replaces the verbatim copy below.  The C02 harness sets it to a function that has the TCP
// acceptor's real accept loop build its own PlayerConn around the pipe end (c02/rig_test.go), so
// that the TCP acceptor's own stream reassembly is what the session's reader runs.
var Framing func(net.Conn) acceptor.PlayerConn

// Write blocks while the client "does not read" (Client.Stall), then writes.
func (t *pipeConn) Write(b []byte) (int, error) {
	t.mu.Lock()
	st := t.stall
	t.mu.Unlock()
	if st != nil {
		<-st
	}
	return t.Conn.Write(b)
}

func (t *pipeConn) GetNextMessage() (b []byte, err error) {
	if t.framer != nil {
		return t.framer.GetNextMessage()
	}
	header, err := ioutil.ReadAll(io.LimitReader(t.Conn, codec.HeadLength))
	if err != nil {
		return nil, err
	}
	if len(header) == 0 {
		return nil, constants.ErrConnectionClosed
	}
	msgSize, _, err := codec.ParseHeader(header)
	if err != nil {
		return nil, err
	}
	msgData, err := ioutil.ReadAll(io.LimitReader(t.Conn, int64(msgSize)))
	if err != nil {
		return nil, err
	}
	if len(msgData) < msgSize {
		return nil, constants.ErrReceivedMsgSmallerThanExpected
	}
	return append(header, msgData...), nil
}

var _ acceptor.PlayerConn = (*pipeConn)(nil)

// Msg is one thing the server wrote to a client, decoded.
type Msg struct {
	Kind  string // handshake | heartbeat | kick | response | push | request | notify | baddata | badpacket
	ID    uint   // response id
	Route string // push route
	Err   bool   // error flag of the message
	Data  []byte // message payload (packet body for handshake/baddata)
}

// Client is a scripted raw pomelo client on the other end of the pipe.
type Client struct {
	n     *Node
	Front string
	// Session is the server side ClientSession (real object).
	Session *session.ClientSession
	// AutoHeartbeat (default true): Node.Advance sends heartbeats for this client.
	AutoHeartbeat bool
	// WriteTimeout > 0 (clients of Node.Accept): a write nobody reads within this (virtual) time is
	// taken as buffered by the transport, as a TCP socket would: the write "succeeds", the
	// connection is marked Stuck and later writes are not attempted.  0 = writes block (net.Pipe).
	WriteTimeout time.Duration
	// Served: how many ClientSessions the accept loop built on this connection (Node.Accept only; 1 is right).
	Served int

	conn   net.Conn
	srv    *pipeConn
	enc    *codec.PomeloPacketEncoder
	menc   *message.MessagesEncoder
	opened bool

	mu     sync.Mutex
	recv   []Msg
	taken  int
	closed bool // the server closed the connection (reader saw EOF)
	gone   bool // Close() was called on the client end
	stuck  bool // a write timed out: nobody reads the server end
}

// ---------------------------------------------------------------- in-memory acceptor (Node.Accept)

// memAcceptor is an acceptor.Acceptor without a socket: what TCPAcceptor / WSAcceptor hand to
// pomelo.StartAcceptor is a channel of accepted PlayerConns; here the harness is the listener.
type memAcceptor struct {
	ch   chan acceptor.PlayerConn
	stop chan struct{}
	cfg  *session.SessionConfig

	mu     sync.Mutex
	byConn map[acceptor.PlayerConn][]*session.ClientSession
}

func (a *memAcceptor) ListenAndServe()                       { <-a.stop }
func (a *memAcceptor) Stop()                                 { close(a.stop) }
func (a *memAcceptor) GetAddr() string                       { return "mem" }
func (a *memAcceptor) GetConnChan() chan acceptor.PlayerConn { return a.ch }

// captureImpl is the front's real SessionsImpl; OnSessionCreate additionally notes which
// connection the new session was built on (the accept loop does not return its sessions).
type captureImpl struct {
	pi.IClientSessionImpl
	a *memAcceptor
}

func (c *captureImpl) OnSessionCreate(s pi.IClientSession) {
	if cs, ok := s.(*session.ClientSession); ok {
		if f := sessionConnField(cs); f.IsValid() {
			pc := *(*acceptor.PlayerConn)(unsafe.Pointer(f.UnsafeAddr()))
			c.a.mu.Lock()
			c.a.byConn[pc] = append(c.a.byConn[pc], cs)
			c.a.mu.Unlock()
		}
	}
	c.IClientSessionImpl.OnSessionCreate(s)
}

var playerConnType = reflect.TypeOf((*acceptor.PlayerConn)(nil)).Elem()

// sessionConnField: the connection a ClientSession was built on = its ONE field of type
// acceptor.PlayerConn, found by type (no unexported name: a rename of the field does not matter).
// Panics if the session has not exactly one such field: every Accept would otherwise report its
// connections as served by no session.
func sessionConnField(cs *session.ClientSession) reflect.Value {
	v := reflect.ValueOf(cs).Elem()
	var hit []reflect.Value
	for i := 0; i < v.NumField(); i++ {
		if f := v.Field(i); f.Type() == playerConnType {
			hit = append(hit, f)
		}
	}
	if len(hit) != 1 {
		panic("node: session.ClientSession has not exactly one field of type acceptor.PlayerConn")
	}
	return hit[0]
}

func (n *Node) acceptorOf(front string) *memAcceptor {
	n.mu.Lock()
	defer n.mu.Unlock()
	if a := n.acceptors[front]; a != nil {
		return a
	}
	s := n.svcs[front]
	if s == nil || s.sessions == nil {
		panic("node.Accept: not a front service: " + front)
	}
	a := &memAcceptor{ch: make(chan acceptor.PlayerConn, 64), stop: make(chan struct{}),
		byConn: map[acceptor.PlayerConn][]*session.ClientSession{}}
	// what TCPComponent.Start does, with the in-memory acceptor in the place of NewTCPAcceptor(address)
	a.cfg = session.NewSessionConfig(nil)
	a.cfg.Impl = &captureImpl{IClientSessionImpl: pomelo.NewSessionsImpl(s.ns.GetRunService().GetScheduler(), s.sessions), a: a}
	pomelo.StartAcceptor(a, a.cfg)
	if n.acceptors == nil {
		n.acceptors = map[string]*memAcceptor{}
	}
	n.acceptors[front] = a
	return a
}

// Accept opens k new in-memory connections to a front service THROUGH THE REAL ACCEPT LOOP
// (pomelo.StartAcceptor over an in-memory acceptor.Acceptor): all k connections are queued in the
// acceptor's channel before the loop takes the first one (clients connecting at the same moment;
// the step runs on one P so that this arrival order is what the loop sees on every run).  No
// handshake yet.  Client.Served tells how many sessions the loop built on the connection;
// Client.Session is the first of them (nil if none).
func (n *Node) Accept(front string, k int) []*Client {
	a := n.acceptorOf(front)
	synctest.Wait()
	cs := make([]*Client, k)
	for i := range cs {
		srvEnd, cliEnd := net.Pipe()
		c := &Client{n: n, Front: front, conn: cliEnd, AutoHeartbeat: true, WriteTimeout: 2 * time.Second,
			enc: codec.NewPomeloPacketEncoder(), menc: message.NewMessagesEncoder(false)}
		go c.reader()
		c.srv = &pipeConn{Conn: srvEnd}
		if Framing != nil {
			c.srv.framer = Framing(srvEnd)
		}
		cs[i] = c
	}
	old := runtime.GOMAXPROCS(1)
	for _, c := range cs {
		a.ch <- c.srv
	}
	synctest.Wait()
	runtime.GOMAXPROCS(old)
	a.mu.Lock()
	for _, c := range cs {
		ss := a.byConn[c.srv]
		delete(a.byConn, c.srv)
		c.Served = len(ss)
		if len(ss) > 0 {
			c.Session = ss[0]
		}
	}
	a.mu.Unlock()
	n.mu.Lock()
	n.clients = append(n.clients, cs...)
	n.mu.Unlock()
	return cs
}

// write is conn.Write with the client's WriteTimeout (see there).
func (c *Client) write(b []byte) bool {
	if c.WriteTimeout <= 0 {
		_, err := c.conn.Write(b)
		return err == nil
	}
	c.mu.Lock()
	st := c.stuck
	c.mu.Unlock()
	if st {
		return true
	}
	c.conn.SetWriteDeadline(time.Now().Add(c.WriteTimeout))
	_, err := c.conn.Write(b)
	if errors.Is(err, os.ErrDeadlineExceeded) {
		c.mu.Lock()
		c.stuck = true
		c.mu.Unlock()
		return true
	}
	return err == nil
}

// Stuck tells whether a write of this client timed out (nobody reads the server end).
func (c *Client) Stuck() bool {
	c.mu.Lock()
	defer c.mu.Unlock()
	return c.stuck
}

// Connect opens a new in-memory connection to a front service: a real
// session.NewClientSession(conn, cfg) with cfg.Impl = pomelo.NewSessionsImpl
// (what TCPComponent.Start + StartAcceptor do per accepted connection), then
// s.Handle(). No handshake yet (see Open).
func (n *Node) Connect(front string) *Client {
	s := n.svcs[front]
	if s == nil || s.sessions == nil {
		panic("node.Connect: not a front service: " + front)
	}
	srvEnd, cliEnd := net.Pipe()
	cfg := session.NewSessionConfig(nil)
	cfg.Impl = pomelo.NewSessionsImpl(s.ns.GetRunService().GetScheduler(), s.sessions)
	c := &Client{n: n, Front: front, conn: cliEnd, AutoHeartbeat: true,
		enc: codec.NewPomeloPacketEncoder(), menc: message.NewMessagesEncoder(false)}
	go c.reader()
	c.srv = &pipeConn{Conn: srvEnd}
	if Framing != nil {
		c.srv.framer = Framing(srvEnd)
	}
	c.Session = session.NewClientSession(c.srv, cfg)
	c.Session.Handle()
	n.mu.Lock()
	n.clients = append(n.clients, c)
	n.mu.Unlock()
	synctest.Wait()
	return c
}

func (c *Client) reader() {
	for {
		head := make([]byte, codec.HeadLength)
		if _, err := io.ReadFull(c.conn, head); err != nil {
			c.mu.Lock()
			c.closed = true
			c.mu.Unlock()
			return
		}
		size := codec.BytesToInt(head[1:])
		body := make([]byte, size)
		if _, err := io.ReadFull(c.conn, body); err != nil {
			c.mu.Lock()
			c.closed = true
			c.mu.Unlock()
			return
		}
		var m Msg
		switch packet.Type(head[0]) {
		case packet.Handshake:
			m = Msg{Kind: "handshake", Data: body}
		case packet.Heartbeat:
			m = Msg{Kind: "heartbeat"}
		case packet.Kick:
			m = Msg{Kind: "kick", Data: body}
		case packet.Data:
			dm, err := message.Decode(body)
			if err != nil {
				m = Msg{Kind: "baddata", Data: body}
				break
			}
			kind := map[message.Type]string{message.Request: "request", message.Notify: "notify",
				message.Response: "response", message.Push: "push"}[dm.Type]
			m = Msg{Kind: kind, ID: dm.ID, Route: dm.Route, Err: dm.Err, Data: append([]byte(nil), dm.Data...)}
		default:
			m = Msg{Kind: "badpacket", Data: append(head, body...)}
		}
		c.mu.Lock()
		c.recv = append(c.recv, m)
		c.mu.Unlock()
	}
}

// SendRaw writes bytes to the connection (false when the server end is gone)
// and waits for quiescence.
func (c *Client) SendRaw(b []byte) bool {
	ok := c.write(b)
	synctest.Wait()
	return ok
}

// Write writes bytes to the connection WITHOUT waiting for quiescence (for
// harnesses that want several clients' traffic in flight together; call
// Node.Wait afterwards).
func (c *Client) Write(b []byte) bool {
	return c.write(b)
}

// SendPacket frames body as a packet of the given type with the real encoder.
func (c *Client) SendPacket(typ packet.Type, body []byte) bool {
	p, err := c.enc.Encode(typ, body)
	if err != nil {
		return false
	}
	return c.SendRaw(p)
}

// Packet returns the encoded packet carrying message m (real encoders).
func (c *Client) Packet(m *message.Message) []byte {
	b, err := c.menc.Encode(m)
	if err != nil {
		return nil
	}
	p, _ := c.enc.Encode(packet.Data, b)
	return p
}

const handshakeBody = `{"sys":{"platform":"verif","libVersion":"0","clientBuildNumber":"0","clientVersion":"0"},"user":{}}`

// Handshake sends a Handshake packet (also usable on an already working
// connection: the real session then goes back to StatusHandshake).
func (c *Client) Handshake() bool { return c.SendPacket(packet.Handshake, []byte(handshakeBody)) }

// Ack sends a HandshakeAck packet.
func (c *Client) Ack() bool { return c.SendPacket(packet.HandshakeAck, nil) }

// Open performs handshake + handshake-ack.
func (c *Client) Open() bool {
	ok := c.Handshake() && c.Ack()
	c.opened = ok
	return ok
}

// Request sends a request message (id 0 is what the server treats as notify).
func (c *Client) Request(id uint, route string, data []byte) bool {
	return c.SendRaw(c.Packet(&message.Message{Type: message.Request, ID: id, Route: route, Data: data}))
}

// Notify sends a notify message.
func (c *Client) Notify(route string, data []byte) bool {
	return c.SendRaw(c.Packet(&message.Message{Type: message.Notify, Route: route, Data: data}))
}

// Heartbeat sends a heartbeat packet.
func (c *Client) Heartbeat() bool { return c.SendPacket(packet.Heartbeat, nil) }

// Stall makes the server→client direction of the connection stand still (a
// client that stopped reading / a stalled link): every conn.Write of the
// session blocks until Resume. Do not advance time or send on this client
// synchronously while a flood is stalled (use Write from a goroutine).
func (c *Client) Stall() {
	c.srv.mu.Lock()
	if c.srv.stall == nil {
		c.srv.stall = make(chan struct{})
	}
	c.srv.mu.Unlock()
}

// Resume ends a Stall and waits for quiescence.
func (c *Client) Resume() {
	c.srv.mu.Lock()
	if c.srv.stall != nil {
		close(c.srv.stall)
		c.srv.stall = nil
	}
	c.srv.mu.Unlock()
	synctest.Wait()
}

// Take returns what arrived since the previous Take, in arrival order.
func (c *Client) Take() []Msg {
	c.mu.Lock()
	defer c.mu.Unlock()
	out := append([]Msg(nil), c.recv[c.taken:]...)
	c.taken = len(c.recv)
	return out
}

// All returns everything that ever arrived, in arrival order.
func (c *Client) All() []Msg {
	c.mu.Lock()
	defer c.mu.Unlock()
	return append([]Msg(nil), c.recv...)
}

// Closed tells whether the server closed the connection.
func (c *Client) Closed() bool {
	c.mu.Lock()
	defer c.mu.Unlock()
	return c.closed
}

// NetId is the id the front's ClientSessions gave to the session.
func (c *Client) NetId() uint32 {
	if c.Session == nil {
		return 0
	}
	return c.Session.GetId()
}

// Close closes the client end of the connection and waits for quiescence.
func (c *Client) Close() {
	c.mu.Lock()
	c.gone = true
	c.mu.Unlock()
	c.conn.Close()
	synctest.Wait()
}
