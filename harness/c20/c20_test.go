// C20 correspondence harness: drives the real zoned spatial index
// (mmo/servers/scene/space.ZoneSpace) and the brute-force SimpleSpace with
// generated and replayed op lines and records one observation per op.
//
// Two streams (a case starts with `reset`):
//
//	exact  — reset kind=x bx= bz= ex= ez= step= | add/mov id= x= y= z= | del id= | q x= y= z= r= [own=]
//	         (own = the searcher's Validate rejects that id, as searchers.FindPlayers rejects its owner;
//	         observation of q: z=<zoned> b=<SimpleSpace handed only fresh ids> s=<SimpleSpace handed every op>)
//	         integers counting quarter units (value/4 is the float32 handed to the code);
//	         magnitudes are kept where float32 is exact for the zone index and for the
//	         `dist > r` test, so the Lean model must reproduce the observation verbatim.
//	         unit id= kind=<none|exit|test|camera|monster|avatar|gone> dead=<0|1> (funit in the float stream) — the scene
//	         world's view of an id; q/qn/fq/fqn with fp=<id> run the real searchers.FindPlayers owned by that id.
//	         qn n= x= y= z= r= [own=] — a long-lived space: the same query n times in a row on each of the three
//	         spaces (n up to 200000, around the widths of 8- and 16-bit counters); observation = that of the first
//	         run + ` n=<n> same=<runs whose three results equal the first>` and, for the first run that differs,
//	         ` at=<its number> dz= db= ds=` (its results).  fqn = the same in the float stream (` at= dz= ds=`).
//	float  — reset kind=f (default | bx= … as float32 bit patterns) | fadd/fmov/fdel/fq with
//	         float32 bit patterns (8 hex digits): arbitrary values incl. huge, tiny, non-finite.
//	         Observation of fq: z=<zoned> b=<own brute-force scan over a shadow copy, same
//	         Pos.Distance> s=<SimpleSpace handed only fresh ids: must equal b> e=<ids within 2 ulp of the radius or at a non-finite position>
//	         nf=<1 if the query itself is non-finite>.
package c20

import (
	"fmt"
	"math"
	"sort"
	"strconv"
	"strings"
	"testing"

	"cell2verif/hx"

	"mmo/common/entity"
	"mmo/servers/scene/define"
	"mmo/servers/scene/space"
	"mmo/servers/scene/space/factory"
	"mmo/servers/scene/space/searchers"

	fcommon "mmo/modules/fight/common"
	edefine "mmo/servers/scene/entity/define"
)

// The scene world as searchers.FindPlayers sees it: GetWorld().GetEntity(id) and the entity's BaseUnit
// component (IsDead, GetUnitType).  Only those methods exist; the embedded nil interfaces make any other
// call of the code under test a panic (= an observation).  An id the ops never described is a live avatar.
type unitInfo struct {
	kind define.UnitType
	dead bool
	gone bool // the world does not know the id (destroyed entity whose position is still in the index)
}

type stubUnit struct {
	entity.IComponent
	u unitInfo
}

func (s *stubUnit) GetUnitType() define.UnitType { return s.u.kind }
func (s *stubUnit) GetChar() fcommon.ICharacter  { return nil }
func (s *stubUnit) IsDead() bool                 { return s.u.dead }

type stubEntity struct {
	entity.IEntity
	id    entity.EntityID
	world *stubWorld
}

func (e *stubEntity) GetId() entity.EntityID    { return e.id }
func (e *stubEntity) GetWorld() entity.IWorld   { return e.world }
func (e *stubEntity) GetComponent(name string) entity.IComponent {
	if name != edefine.BaseUnit {
		return nil
	}
	return &stubUnit{u: e.world.info(e.id)}
}

type stubWorld struct {
	entity.IWorld
	units map[entity.EntityID]unitInfo
}

func (sw *stubWorld) info(id entity.EntityID) unitInfo {
	if u, ok := sw.units[id]; ok {
		return u
	}
	return unitInfo{kind: define.UnitAvatar}
}

func (sw *stubWorld) GetEntity(id entity.EntityID) entity.IEntity {
	if sw.info(id).gone {
		return nil
	}
	return &stubEntity{id: id, world: sw}
}

var unitKinds = map[string]define.UnitType{"none": define.UnitNone, "exit": define.UnitExit, "test": define.UnitTest,
	"camera": define.UnitCamera, "monster": define.UnitMonster, "avatar": define.UnitAvatar}


// collect is an ISearcher that accepts every candidate except the owner (if it has one),
// the way searchers.FindPlayers rejects its ownerId.
type collect struct {
	ids    []entity.EntityID
	own    entity.EntityID
	hasOwn bool
}

func (c *collect) Validate(id entity.EntityID, dist float32) bool { return !(c.hasOwn && id == c.own) }
func (c *collect) AddCandidate(id entity.EntityID, dist float32)  { c.ids = append(c.ids, id) }
func (c *collect) MakeResults() []entity.EntityID                 { return c.ids }

func showIDs(ids []entity.EntityID) string {
	xs := make([]int, len(ids))
	for i, v := range ids {
		xs[i] = int(v)
	}
	sort.Ints(xs)
	var sb strings.Builder
	for i, v := range xs {
		if i > 0 {
			sb.WriteByte(',')
		}
		sb.WriteString(strconv.Itoa(v))
	}
	return sb.String()
}

// fpAccepts: what FindPlayers is for (the float stream's scan uses it; the exact stream's reference is the Lean spec):
// another unit than the owner, known to the world, alive, a player avatar.
func fpAccepts(u unitInfo, id, owner entity.EntityID) bool {
	return id != owner && !u.gone && !u.dead && u.kind == define.UnitAvatar
}

// maxRepeat bounds the n of qn / fqn (two wraps of a 16-bit counter and a bit more).
const maxRepeat = 200000

// sameIDs: the same ids with the same multiplicities (the order the searcher received them in is not observed).
func sameIDs(a, b []entity.EntityID) bool {
	if len(a) != len(b) {
		return false
	}
	eq := true
	for i := range a {
		if a[i] != b[i] {
			eq = false
			break
		}
	}
	return eq || showIDs(a) == showIDs(b)
}

// world is the state of the interpreter: the spaces under test plus a shadow
// copy of what was put into them.
type world struct {
	zone   define.ISpace
	simple define.ISpace // handed only the adds of ids that are not live: the reference of the zoned contract
	all    define.ISpace // a second SimpleSpace handed every op verbatim (its own contract: add of a live id moves it)
	kind   string
	units  *stubWorld                     // what searchers.FindPlayers looks candidates up in
	pos    map[entity.EntityID]define.Pos // shadow copy (ZoneSpace contract: add of a live id is a no-op)
	order  []entity.EntityID
}

var w *world

// lastHidden: number of entities of the last fq whose distance computed in float64 is clearly within the
// radius (by more than 1 part in 10^5) but whose float32 Pos.Distance is not (dx*dx overflows to +Inf beyond
// ~1.8e19) — both implementations and the oracle share Distance, so this is recorded in the histogram, not judged.
var lastHidden int

func kvI(ws []string, key string) (int64, bool) {
	v, ok := hx.KV(ws, key)
	if !ok {
		return 0, false
	}
	n, err := strconv.ParseInt(v, 10, 64)
	return n, err == nil
}

func q4(n int64) float32 { return float32(n) / 4 }

func kvF(ws []string, key string) (float32, bool) {
	v, ok := hx.KV(ws, key)
	if !ok {
		return 0, false
	}
	n, err := strconv.ParseUint(v, 16, 32)
	return math.Float32frombits(uint32(n)), err == nil
}

func posX(ws []string) (define.Pos, bool) {
	x, a := kvI(ws, "x")
	y, b := kvI(ws, "y")
	z, c := kvI(ws, "z")
	return define.Pos{X: q4(x), Y: q4(y), Z: q4(z)}, a && b && c
}

func posF(ws []string) (define.Pos, bool) {
	x, a := kvF(ws, "x")
	y, b := kvF(ws, "y")
	z, c := kvF(ws, "z")
	return define.Pos{X: x, Y: y, Z: z}, a && b && c
}

func finite(f float32) bool { return !math.IsNaN(float64(f)) && !math.IsInf(float64(f), 0) }

func ulp(f float32) float64 {
	a := float32(math.Abs(float64(f)))
	return float64(math.Nextafter32(a, float32(math.Inf(1)))) - float64(a)
}

func (w *world) add(id entity.EntityID, p define.Pos) {
	w.zone.AddEntity(id, p)
	w.all.AddEntity(id, p)
	if _, live := w.pos[id]; !live {
		// SimpleSpace.AddEntity moves a live id, ZoneSpace.AddEntity ignores it; the
		// property is about the zoned contract, so the reference sees only fresh ids
		w.simple.AddEntity(id, p)
		w.pos[id] = p
		w.order = append(w.order, id)
	}
}

func (w *world) mov(id entity.EntityID, p define.Pos) {
	w.zone.UpdateEntityPos(id, p)
	w.simple.UpdateEntityPos(id, p)
	w.all.UpdateEntityPos(id, p)
	if _, live := w.pos[id]; live {
		w.pos[id] = p
	}
}

func (w *world) del(id entity.EntityID) {
	w.zone.RemoveEntity(id)
	w.simple.RemoveEntity(id)
	w.all.RemoveEntity(id)
	if _, live := w.pos[id]; live {
		delete(w.pos, id)
		for i, v := range w.order {
			if v == id {
				w.order = append(w.order[:i], w.order[i+1:]...)
				break
			}
		}
	}
}

// exec interprets one op line against the real code.
func exec(op string) string {
	ws := hx.Words(op)
	if len(ws) == 0 {
		return "bad-op"
	}
	if ws[0] == "reset" {
		kind, _ := hx.KV(ws, "kind")
		w = nil
		return hx.Guard(func() string {
			nw := &world{kind: kind, pos: map[entity.EntityID]define.Pos{}, units: &stubWorld{units: map[entity.EntityID]unitInfo{}}}
			switch kind {
			case "x":
				if len(ws) > 2 && ws[2] == "default" { // the only Init call site of the repository
					nw.zone = factory.CreateZoneSpace()
					break
				}
				bx, a := kvI(ws, "bx")
				bz, b := kvI(ws, "bz")
				ex, c := kvI(ws, "ex")
				ez, d := kvI(ws, "ez")
				st, e := kvI(ws, "step")
				if !(a && b && c && d && e) || st <= 0 || bx > ex || bz > ez {
					return "bad-geo"
				}
				z := space.NewZoneSpace()
				z.Init(q4(bx), q4(bz), q4(ex), q4(ez), q4(st))
				nw.zone = z
			case "f":
				if len(ws) > 2 && ws[2] == "default" {
					nw.zone = factory.CreateZoneSpace()
				} else {
					bx, a := kvF(ws, "bx")
					bz, b := kvF(ws, "bz")
					ex, c := kvF(ws, "ex")
					ez, d := kvF(ws, "ez")
					st, e := kvF(ws, "step")
					if !(a && b && c && d && e) || !(st > 0) || !(bx <= ex) || !(bz <= ez) {
						return "bad-geo"
					}
					z := space.NewZoneSpace()
					z.Init(bx, bz, ex, ez, st)
					nw.zone = z
				}
			default:
				return "bad-op"
			}
			nw.simple = factory.CreateNormalSpace()
			nw.all = factory.CreateNormalSpace()
			w = nw
			return "ok"
		})
	}
	if w == nil {
		return "bad-op"
	}
	float := strings.HasPrefix(ws[0], "f")
	if float != (w.kind == "f") {
		return "bad-op"
	}
	getPos := posX
	if float {
		getPos = posF
	}
	id := entity.EntityID(hx.KVInt(ws, "id"))
	_, hasID := hx.KV(ws, "id")
	own, hasOwn := hx.KV(ws, "own")
	ownID := entity.EntityID(0)
	if hasOwn {
		n, err := strconv.ParseUint(own, 10, 31)
		if err != nil {
			return "bad-op"
		}
		ownID = entity.EntityID(n)
	}
	fp, hasFP := hx.KV(ws, "fp") // the real searchers.FindPlayers owned by that id (a fresh object per query, as space/utils does)
	fpID := entity.EntityID(0)
	if hasFP {
		n, err := strconv.ParseUint(fp, 10, 31)
		if err != nil || hasOwn {
			return "bad-op"
		}
		fpID = entity.EntityID(n)
	}
	searcher := func() define.ISearcher {
		if hasFP {
			return searchers.NewFindPlayers(&stubEntity{id: fpID, world: w.units})
		}
		return &collect{own: ownID, hasOwn: hasOwn}
	}
	switch ws[0] {
	case "unit", "funit": // unit id= kind=<none|exit|test|camera|monster|avatar|gone> dead=<0|1>: the world's view of an id
		k, _ := hx.KV(ws, "kind")
		d, _ := hx.KV(ws, "dead")
		ut, known := unitKinds[k]
		if !hasID || !(known || k == "gone") || !(d == "0" || d == "1") {
			return "bad-op"
		}
		w.units.units[id] = unitInfo{kind: ut, dead: d == "1", gone: k == "gone"}
		return "ok"
	case "add", "fadd":
		p, ok := getPos(ws)
		if !ok || !hasID {
			return "bad-op"
		}
		return hx.Guard(func() string { w.add(id, p); return "ok" })
	case "mov", "fmov":
		p, ok := getPos(ws)
		if !ok || !hasID {
			return "bad-op"
		}
		return hx.Guard(func() string { w.mov(id, p); return "ok" })
	case "del", "fdel":
		if !hasID {
			return "bad-op"
		}
		return hx.Guard(func() string { w.del(id); return "ok" })
	case "q":
		p, ok := getPos(ws)
		r, ok2 := kvI(ws, "r")
		if !ok || !ok2 {
			return "bad-op"
		}
		return hx.Guard(func() string {
			z := w.zone.SearchCircleTargets(p, q4(r), searcher())
			b := w.simple.SearchCircleTargets(p, q4(r), searcher())
			sv := w.all.SearchCircleTargets(p, q4(r), searcher())
			return "z=" + showIDs(z) + " b=" + showIDs(b) + " s=" + showIDs(sv)
		})
	case "qn":
		p, ok := getPos(ws)
		r, ok2 := kvI(ws, "r")
		n, ok3 := kvI(ws, "n")
		if !ok || !ok2 || !ok3 || n < 1 || n > maxRepeat {
			return "bad-op"
		}
		return hx.Guard(func() string {
			z1 := w.zone.SearchCircleTargets(p, q4(r), searcher())
			b1 := w.simple.SearchCircleTargets(p, q4(r), searcher())
			s1 := w.all.SearchCircleTargets(p, q4(r), searcher())
			same, dev := int64(1), ""
			for i := int64(2); i <= n; i++ {
				z := w.zone.SearchCircleTargets(p, q4(r), searcher())
				b := w.simple.SearchCircleTargets(p, q4(r), searcher())
				sv := w.all.SearchCircleTargets(p, q4(r), searcher())
				if sameIDs(z, z1) && sameIDs(b, b1) && sameIDs(sv, s1) {
					same++
				} else if dev == "" {
					dev = fmt.Sprintf(" at=%d dz=%s db=%s ds=%s", i, showIDs(z), showIDs(b), showIDs(sv))
				}
			}
			return fmt.Sprintf("z=%s b=%s s=%s n=%d same=%d%s", showIDs(z1), showIDs(b1), showIDs(s1), n, same, dev)
		})
	case "fq", "fqn":
		p, ok := getPos(ws)
		r, ok2 := kvF(ws, "r")
		if !ok || !ok2 {
			return "bad-op"
		}
		n, hasN := kvI(ws, "n")
		if (ws[0] == "fqn") != hasN || (hasN && (n < 1 || n > maxRepeat)) {
			return "bad-op"
		}
		return hx.Guard(func() string {
			z := w.zone.SearchCircleTargets(p, r, searcher())
			sv := w.simple.SearchCircleTargets(p, r, searcher())
			rep := ""
			if hasN { // a long-lived space: the same query again and again
				same, dev := int64(1), ""
				for i := int64(2); i <= n; i++ {
					zi := w.zone.SearchCircleTargets(p, r, searcher())
					si := w.simple.SearchCircleTargets(p, r, searcher())
					if sameIDs(zi, z) && sameIDs(si, sv) {
						same++
					} else if dev == "" {
						dev = fmt.Sprintf(" at=%d dz=%s ds=%s", i, showIDs(zi), showIDs(si))
					}
				}
				rep = fmt.Sprintf(" n=%d same=%d%s", n, same, dev)
			}
			// the oracle: a scan over the shadow copy with the same Distance and the same test
			var b, e []entity.EntityID
			lastHidden = 0
			for _, id := range w.order {
				ep := w.pos[id]
				d := p.Distance(ep)
				if dx, dy, dz := float64(p.X)-float64(ep.X), float64(p.Y)-float64(ep.Y), float64(p.Z)-float64(ep.Z); d > r && finite(r) &&
					math.Sqrt(dx*dx+dy*dy+dz*dz) < float64(r)*(1-1e-5) {
					lastHidden++
				}
				if !(d > r) && !(hasOwn && id == ownID) && !(hasFP && !fpAccepts(w.units.info(id), id, fpID)) {
					b = append(b, id)
				}
				if !finite(ep.X) || !finite(ep.Y) || !finite(ep.Z) {
					e = append(e, id)
				} else if finite(d) && finite(r) {
					m := d
					if float32(math.Abs(float64(r))) > m {
						m = float32(math.Abs(float64(r)))
					}
					if math.Abs(float64(d)-float64(r)) <= 2*ulp(m) {
						e = append(e, id)
					}
				}
			}
			nf := 0
			if !finite(p.X) || !finite(p.Y) || !finite(p.Z) || !finite(r) {
				nf = 1
			}
			return fmt.Sprintf("z=%s b=%s s=%s e=%s nf=%d%s", showIDs(z), showIDs(b), showIDs(sv), showIDs(e), nf, rep)
		})
	}
	return "bad-op"
}

// ---------------------------------------------------------------- generators

type gen struct {
	t *hx.T
}

func (g *gen) run(op string) string {
	obs := exec(op)
	g.t.Emit(op, obs)
	return obs
}

// long-lived spaces ---------------------------------------------------------
//
// One case in ten keeps its space alive across tens of thousands of queries: at some point of the case one
// qn / fqn op repeats a query n times, n chosen around the width of an 8-bit or a 16-bit counter (256, 65536,
// 2*65536) — either so that the ORDINARY ops which follow straddle query no. 256 / 65536 / 131072 of that
// space (entities that were never reported, or were last reported long ago, are then asked for), or so that
// the repetition itself crosses it.  State that a query leaves behind in the index (visit stamps, serial
// numbers, caches, pooled searchers) is reachable only this way.  32-bit widths are out of reach.
func (g *gen) longN(tag string, nq int) (n int, aimed bool) {
	r := g.t.R
	b := []int{256, 256, 65536, 65536, 65536, 65536, 65536, 131072}[r.Intn(8)]
	g.t.Count(fmt.Sprintf("%s:long:boundary-%d", tag, b))
	if r.Intn(3) == 0 {
		g.t.Count(tag + ":long:repetition-crosses-boundary")
		return b + r.Intn(4) - 1, true
	}
	g.t.Count(tag + ":long:following-ops-straddle-boundary")
	n = b - nq - 1 - r.Intn(3)
	if n < 1 {
		n = 1
	}
	return n, r.Intn(4) == 0
}

// the scene world behind searchers.FindPlayers -------------------------------

// unitOp describes an id to the world: dead, not a player avatar, or unknown to the world (destroyed, yet still
// in the index), or a live avatar again.
func (g *gen) unitOp(pre, tag string, id int) {
	r := g.t.R
	kind := []string{"avatar", "avatar", "avatar", "monster", "monster", "gone", "exit", "test", "camera", "none"}[r.Intn(10)]
	dead := 0
	if r.Intn(3) == 0 {
		dead = 1
	}
	g.t.Count(fmt.Sprintf("%s:unit:%s,dead=%d", tag, kind, dead))
	g.run(fmt.Sprintf("%sunit id=%d kind=%s dead=%d", pre, id, kind, dead))
}

// exact stream --------------------------------------------------------------

type geoX struct {
	bx, bz, ex, ez, st int64
	def                bool // made by factory.CreateZoneSpace() (the numbers are what the factory is expected to pass to Init)
}

func (ge geoX) reset() string {
	if ge.def {
		return "reset kind=x default"
	}
	return fmt.Sprintf("reset kind=x bx=%d bz=%d ex=%d ez=%d step=%d", ge.bx, ge.bz, ge.ex, ge.ez, ge.st)
}

var geosX = []geoX{
	{-120, -120, 120, 120, 20, false}, // the factory geometry: ±30, zone size 5
	{-120, -120, 120, 120, 20, true},  // the factory itself
	{-20, -20, 20, 20, 20, false},     // zonespace_test.go
	{0, 0, 400, 200, 10, false},
	{-32, -32, 32, 32, 1, false}, // zone size 0.25: 65 x 65 zones
	{-1024, -1024, 1024, 1024, 64, false},
	{0, 0, 0, 0, 20, false},            // a single zone
	{-120, -120, 120, 120, 12, false},  // zone size 3
	{-100, -60, 77, 130, 28, false},    // zone size 7, extent not a multiple
	{-120, -120, 120, 120, 256, false}, // zone larger than the map
	{40, -400, 41, 400, 3, false},      // a thin strip
}

const lim = 1024 // |coordinate| ≤ 256 units keeps the squared distance exact in float32

func clampL(v int64) int64 {
	if v < -lim {
		return -lim
	}
	if v > lim {
		return lim
	}
	return v
}

func (g *gen) coordX(begin, end, st int64, tag string) int64 {
	r := g.t.R
	n := (end - begin) / st
	switch r.Intn(9) {
	case 0: // grid-aligned
		g.t.Count(tag + ":grid")
		return clampL(begin + st*int64(r.Intn(int(n)+2)))
	case 1: // one quarter off a zone border
		g.t.Count(tag + ":border±")
		return clampL(begin + st*int64(r.Intn(int(n)+2)) + int64(r.Intn(3)-1))
	case 2: // the map's own bounds
		g.t.Count(tag + ":bounds")
		return clampL([]int64{begin, end, begin - 1, end + 1, begin + 1, end - 1}[r.Intn(6)])
	case 3: // outside the map
		g.t.Count(tag + ":outside")
		if r.Intn(2) == 0 {
			return clampL(begin - 1 - int64(r.Intn(600)))
		}
		return clampL(end + 1 + int64(r.Intn(600)))
	case 4:
		g.t.Count(tag + ":extreme")
		return []int64{-lim, lim, 0}[r.Intn(3)]
	default:
		g.t.Count(tag + ":inside")
		return clampL(begin + int64(r.Intn(int(end-begin)+1)))
	}
}

func isqrt(n int64) int64 {
	if n <= 0 {
		return 0
	}
	s := int64(math.Sqrt(float64(n)))
	for s*s > n {
		s--
	}
	for (s+1)*(s+1) <= n {
		s++
	}
	return s
}

func (g *gen) caseX(nops int) {
	r := g.t.R
	ge := geosX[r.Intn(len(geosX))]
	g.t.Count(fmt.Sprintf("x:geo:%d,%d,%d,%d/%d def=%v", ge.bx, ge.bz, ge.ex, ge.ez, ge.st, ge.def))
	g.run(ge.reset())
	type P struct{ x, y, z int64 }
	live := map[int]P{}
	pool := 4 + r.Intn(24)
	pickID := func() int {
		if r.Intn(40) == 0 {
			return []int{0, 1 << 20, 1<<31 - 1}[r.Intn(3)]
		}
		return 1 + r.Intn(pool)
	}
	pos := func() P {
		y := int64(0)
		if r.Intn(3) == 0 {
			y = int64(r.Intn(2*lim+1)) - lim
			if r.Intn(2) == 0 {
				y = int64(r.Intn(41)) - 20
			}
		}
		return P{g.coordX(ge.bx, ge.ex, ge.st, "x:coord"), y, g.coordX(ge.bz, ge.ez, ge.st, "x:coord")}
	}
	longAt, nq := -1, 0
	if r.Intn(10) == 0 {
		longAt = r.Intn(nops/2 + 1)
	}
	for i := 0; i < nops; i++ {
		if i == longAt {
			n, aimed := g.longN("x", nq)
			q, rad := pos(), []int64{-1, 0, 1, ge.st, 2 * ge.st, 2048}[r.Intn(6)]
			if aimed && len(live) > 0 {
				ids := make([]int, 0, len(live))
				for id := range live {
					ids = append(ids, id)
				}
				sort.Ints(ids)
				q = live[ids[r.Intn(len(ids))]]
				rad = []int64{0, 1, ge.st}[r.Intn(3)]
			}
			if int64(n) > 1000 && (ge.ex-ge.bx)/ge.st > 40 && rad > 8*ge.st {
				rad = 8 * ge.st // thousands of zones per query, tens of thousands of queries: keep the run short
			}
			obs := g.run(fmt.Sprintf("qn n=%d x=%d y=%d z=%d r=%d", n, q.x, q.y, q.z, rad))
			nq += n
			if strings.HasPrefix(obs, "z= ") {
				g.t.Count("x:long:result-empty")
			} else {
				g.t.Count("x:long:result-nonempty")
			}
		}
		if r.Intn(9) == 0 {
			g.unitOp("", "x", pickID())
		}
		switch k := r.Intn(100); {
		case k < 32:
			id, p := pickID(), pos()
			if _, ok := live[id]; ok {
				g.t.Count("x:add-live-id")
			} else {
				g.t.Count("x:add-fresh")
				live[id] = p
			}
			g.run(fmt.Sprintf("add id=%d x=%d y=%d z=%d", id, p.x, p.y, p.z))
		case k < 56:
			id, p := pickID(), pos()
			var tight *P // a follow-up query hugging the entity after a minimal step over a zone border
			var away P
			if old, ok := live[id]; ok {
				if c := r.Intn(5); c == 4 {
					// the smallest steps over a border of the zone the entity is registered in (one axis or a corner),
					// then a query whose circle contains the entity but stays on the far side of that border
					lohi := func(v, begin, end int64) (int64, int64) {
						col := int64(0)
						if v > begin {
							col = (v - begin) / ge.st
						}
						if n := (end - begin) / ge.st; col > n {
							col = n
						}
						return begin + col*ge.st, begin + (col+1)*ge.st
					}
					step := func(v, begin, end int64) (int64, int64) { // new coordinate, direction of the step
						lo, hi := lohi(v, begin, end)
						d := int64(1 + r.Intn(2))
						if r.Intn(2) == 0 {
							return clampL(lo - d), -1
						}
						return clampL(hi - 1 + d), 1
					}
					p = P{old.x, old.y, old.z}
					var dx, dz int64
					switch r.Intn(3) {
					case 0:
						p.x, dx = step(old.x, ge.bx, ge.ex)
					case 1:
						p.z, dz = step(old.z, ge.bz, ge.ez)
					default:
						p.x, dx = step(old.x, ge.bx, ge.ex)
						p.z, dz = step(old.z, ge.bz, ge.ez)
					}
					tight = &p
					away = P{dx, 0, dz}
					g.t.Count("x:mov-border-step")
				} else if c == 0 { // a small step, often inside the same zone
					p = P{clampL(old.x + int64(r.Intn(9)-4)), old.y, clampL(old.z + int64(r.Intn(9)-4))}
					g.t.Count("x:mov-small")
				} else if c == 1 { // along one axis only: the other zone coordinate stays
					if r.Intn(2) == 0 {
						p = P{old.x, p.y, p.z}
					} else {
						p = P{p.x, p.y, old.z}
					}
					g.t.Count("x:mov-one-axis")
				} else {
					g.t.Count("x:mov-far")
				}
				live[id] = p
			} else {
				g.t.Count("x:mov-unknown")
			}
			g.run(fmt.Sprintf("mov id=%d x=%d y=%d z=%d", id, p.x, p.y, p.z))
			if tight != nil {
				// centre shifted away from the crossed border by the radius: the entity is on the rim or inside
				rad := int64(r.Intn(4))
				sh := rad
				if r.Intn(3) == 0 && away.x != 0 && away.z != 0 {
					sh = 0 // corner step: keep the centre on the entity
				}
				q := P{clampL(tight.x + away.x*sh), tight.y, clampL(tight.z + away.z*sh)}
				if away.x != 0 && away.z != 0 && sh > 0 {
					q = P{clampL(tight.x + away.x*sh), tight.y, tight.z} // one axis, so that the distance stays = rad
					if r.Intn(2) == 0 {
						q = P{tight.x, tight.y, clampL(tight.z + away.z*sh)}
					}
				}
				g.t.Count("x:q:tight-after-border-step")
				nq++
				g.run(fmt.Sprintf("q x=%d y=%d z=%d r=%d", q.x, q.y, q.z, rad))
			}
		case k < 66:
			id := pickID()
			if _, ok := live[id]; ok {
				g.t.Count("x:del-live")
				delete(live, id)
			} else {
				g.t.Count("x:del-unknown")
			}
			g.run(fmt.Sprintf("del id=%d", id))
		default:
			// query: centre and radius aimed at the entities present
			q := pos()
			var rad int64
			var target *P
			if len(live) > 0 && r.Intn(4) != 0 {
				ids := make([]int, 0, len(live))
				for id := range live {
					ids = append(ids, id)
				}
				sort.Ints(ids)
				p := live[ids[r.Intn(len(ids))]]
				target = &p
			}
			switch c := r.Intn(12); {
			case c == 0:
				rad = 0
				if target != nil && r.Intn(2) == 0 {
					q = *target
				}
				g.t.Count("x:q:r=0")
			case c == 1:
				rad = -int64(1 + r.Intn(400))
				g.t.Count("x:q:r<0")
			case c == 2:
				rad = []int64{8192, 4096, 2048, 2896, 5000}[r.Intn(5)]
				g.t.Count("x:q:r-huge")
			case c <= 7 && target != nil:
				// radius at / just below / just above the exact distance to a live entity
				if r.Intn(2) == 0 { // axis-aligned or 3-4-5 offsets make the distance rational
					k := int64(1 + r.Intn(60))
					off := [][3]int64{{k, 0, 0}, {0, 0, k}, {3 * k, 0, 4 * k}, {-4 * k, 0, 3 * k}, {0, k, 0}, {2 * k, k, 2 * k}, {-5 * k, 0, -12 * k}}[r.Intn(7)]
					q = P{clampL(target.x + off[0]), clampL(target.y + off[1]), clampL(target.z + off[2])}
				}
				dx, dy, dz := q.x-target.x, q.y-target.y, q.z-target.z
				s := dx*dx + dy*dy + dz*dz
				root := isqrt(s)
				if root*root == s {
					g.t.Count("x:q:r-at-exact-distance")
				} else {
					g.t.Count("x:q:r-around-distance")
				}
				rad = root + int64(r.Intn(3)-1)
			case c <= 9:
				rad = int64(r.Intn(int(ge.st)*3 + 2))
				g.t.Count("x:q:r-zone-scale")
			default:
				rad = int64(r.Intn(1200))
				g.t.Count("x:q:r-random")
			}
			own := ""
			if c := r.Intn(8); c < 2 { // a searcher that rejects its owner (usually a live id)
				own = fmt.Sprintf(" own=%d", pickID())
				g.t.Count("x:q:searcher-rejects-owner")
			} else if c < 4 { // the real searchers.FindPlayers owned by that id
				own = fmt.Sprintf(" fp=%d", pickID())
				g.t.Count("x:q:searcher-FindPlayers")
			}
			obs := g.run(fmt.Sprintf("q x=%d y=%d z=%d r=%d%s", q.x, q.y, q.z, rad, own))
			nq++
			if strings.HasPrefix(obs, "z= ") {
				g.t.Count("x:q:result-empty")
			} else {
				g.t.Count("x:q:result-nonempty")
			}
		}
	}
}

// float stream --------------------------------------------------------------

type geoF struct {
	def                bool
	bx, bz, ex, ez, st float32
}

var geosF = []geoF{
	{def: true}, // factory.CreateZoneSpace(): Init(-30,-30,30,30,5)
	{false, -5, -5, 5, 5, 5},
	{false, 0, 0, 100, 50, 2.5},
	{false, -30, -30, 30, 30, 0.25},
	{false, -1000, -1000, 1000, 1000, 7},
	{false, -3, -3, 3, 3, 0.1},
	{false, 10.5, -77.25, 93.125, 12, 3.3},
}

func fb(f float32) string { return fmt.Sprintf("%08x", math.Float32bits(f)) }

func nudge(f float32, k int) float32 {
	for ; k > 0; k-- {
		f = math.Nextafter32(f, float32(math.Inf(1)))
	}
	for ; k < 0; k++ {
		f = math.Nextafter32(f, float32(math.Inf(-1)))
	}
	return f
}

var hugeF = []float32{1e19, 1e20, 3e38, math.MaxFloat32, 9.3e18, 4.7e19, 1e10, 2e9, 4.3e9, 1.7e7, 1e30}
var tinyF = []float32{0, float32(math.Copysign(0, -1)), 1e-30, 1e-45, 1e-38, 1.2e-38, 1e-20, 1e-7}

func (g *gen) coordF(ge geoF, axisBegin, axisEnd float32, allowNF bool, tag string) float32 {
	r := g.t.R
	st := ge.st
	switch c := r.Intn(40); {
	case c < 6: // on / next to a zone border
		g.t.Count(tag + ":border±ulp")
		n := int((axisEnd-axisBegin)/st) + 1
		return nudge(axisBegin+float32(r.Intn(n+1))*st, r.Intn(5)-2)
	case c < 9:
		g.t.Count(tag + ":quarter-grid")
		return float32(r.Intn(2001)-1000) / 4
	case c < 12:
		g.t.Count(tag + ":outside")
		v := axisEnd + float32(r.Intn(10000))/8
		if r.Intn(2) == 0 {
			v = axisBegin - float32(r.Intn(10000))/8
		}
		return v
	case c < 16:
		g.t.Count(tag + ":huge")
		v := hugeF[r.Intn(len(hugeF))]
		if r.Intn(2) == 0 {
			v = -v
		}
		return v
	case c < 18:
		g.t.Count(tag + ":tiny")
		v := tinyF[r.Intn(len(tinyF))]
		if r.Intn(2) == 0 {
			v = -v
		}
		return v
	case c < 19:
		g.t.Count(tag + ":random-bits")
		v := math.Float32frombits(r.Uint32())
		if !finite(v) && !allowNF {
			v = 1
		}
		return v
	case c < 20 && allowNF:
		g.t.Count(tag + ":non-finite")
		return []float32{float32(math.NaN()), float32(math.Inf(1)), float32(math.Inf(-1))}[r.Intn(3)]
	default:
		g.t.Count(tag + ":inside")
		return axisBegin + (axisEnd-axisBegin)*r.Float32()
	}
}

func (g *gen) caseF(nops int) {
	r := g.t.R
	ge := geosF[r.Intn(len(geosF))]
	if ge.def {
		g.run("reset kind=f default")
		ge = geoF{true, -30, -30, 30, 30, 5}
		g.t.Count("f:geo:default")
	} else {
		g.run(fmt.Sprintf("reset kind=f bx=%s bz=%s ex=%s ez=%s step=%s", fb(ge.bx), fb(ge.bz), fb(ge.ex), fb(ge.ez), fb(ge.st)))
		g.t.Count(fmt.Sprintf("f:geo:%g,%g,%g,%g/%g", ge.bx, ge.bz, ge.ex, ge.ez, ge.st))
	}
	// a minority of cases admit NaN/Inf positions and queries (recorded, never alarmed on their own)
	allowNF := r.Intn(8) == 0
	live := map[int]define.Pos{}
	pool := 4 + r.Intn(24)
	pos := func() define.Pos {
		var y float32
		if r.Intn(3) == 0 {
			y = g.coordF(ge, -20, 20, allowNF, "f:coord")
		}
		return define.Pos{X: g.coordF(ge, ge.bx, ge.ex, allowNF, "f:coord"), Y: y, Z: g.coordF(ge, ge.bz, ge.ez, allowNF, "f:coord")}
	}
	liveIDs := func() []int {
		ids := make([]int, 0, len(live))
		for id := range live {
			ids = append(ids, id)
		}
		sort.Ints(ids)
		return ids
	}
	longAt, nq := -1, 0
	if r.Intn(10) == 0 {
		longAt = r.Intn(nops/2 + 1)
	}
	for i := 0; i < nops; i++ {
		if i == longAt {
			n, aimed := g.longN("f", nq)
			q, rad := pos(), []float32{-1, 0, 0.25, ge.st, 2 * ge.st, 1e4}[r.Intn(6)]
			if ids := liveIDs(); aimed && len(ids) > 0 {
				q = live[ids[r.Intn(len(ids))]]
				rad = []float32{0, 0.25, ge.st}[r.Intn(3)]
			}
			if n > 1000 && (ge.ex-ge.bx)/ge.st > 40 && rad > 8*ge.st {
				rad = 8 * ge.st
			}
			obs := g.run(fmt.Sprintf("fqn n=%d x=%s y=%s z=%s r=%s", n, fb(q.X), fb(q.Y), fb(q.Z), fb(rad)))
			nq += n
			if strings.HasPrefix(obs, "z= ") {
				g.t.Count("f:long:result-empty")
			} else {
				g.t.Count("f:long:result-nonempty")
			}
		}
		if r.Intn(9) == 0 {
			g.unitOp("f", "f", 1+r.Intn(pool))
		}
		switch k := r.Intn(100); {
		case k < 30:
			id, p := 1+r.Intn(pool), pos()
			if _, ok := live[id]; !ok {
				live[id] = p
				g.t.Count("f:add-fresh")
			} else {
				g.t.Count("f:add-live-id")
			}
			g.run(fmt.Sprintf("fadd id=%d x=%s y=%s z=%s", id, fb(p.X), fb(p.Y), fb(p.Z)))
		case k < 50:
			id, p := 1+r.Intn(pool), pos()
			if old, ok := live[id]; ok {
				if c := r.Intn(4); c == 0 {
					p = define.Pos{X: nudge(old.X, r.Intn(7)-3), Y: old.Y, Z: nudge(old.Z, r.Intn(7)-3)}
					g.t.Count("f:mov-ulps")
				} else if c == 1 {
					if r.Intn(2) == 0 {
						p.X = old.X
					} else {
						p.Z = old.Z
					}
					g.t.Count("f:mov-one-axis")
				} else {
					g.t.Count("f:mov-far")
				}
				live[id] = p
			} else {
				g.t.Count("f:mov-unknown")
			}
			g.run(fmt.Sprintf("fmov id=%d x=%s y=%s z=%s", id, fb(p.X), fb(p.Y), fb(p.Z)))
		case k < 58:
			id := 1 + r.Intn(pool)
			if _, ok := live[id]; ok {
				delete(live, id)
				g.t.Count("f:del-live")
			} else {
				g.t.Count("f:del-unknown")
			}
			g.run(fmt.Sprintf("fdel id=%d", id))
		default:
			q := pos()
			var rad float32
			ids := liveIDs()
			var target *define.Pos
			if len(ids) > 0 && r.Intn(4) != 0 {
				p := live[ids[r.Intn(len(ids))]]
				target = &p
			}
			switch c := r.Intn(16); {
			case c == 0:
				rad = 0
				if target != nil {
					q = *target
				}
				g.t.Count("f:q:r=0")
			case c == 1:
				rad = -r.Float32() * 100
				g.t.Count("f:q:r<0")
			case c <= 4:
				rad = hugeF[r.Intn(len(hugeF))]
				if r.Intn(2) == 0 { // the D12 shape: a query near the map with a radius beyond the int range
					q = define.Pos{X: float32(r.Intn(41) - 20), Y: 0, Z: float32(r.Intn(41) - 20)}
				}
				g.t.Count("f:q:r-huge")
			case c == 5:
				rad = tinyF[r.Intn(len(tinyF))]
				if target != nil {
					q = define.Pos{X: nudge(target.X, r.Intn(3)-1), Y: target.Y, Z: nudge(target.Z, r.Intn(3)-1)}
				}
				g.t.Count("f:q:r-tiny")
			case c == 6 && allowNF:
				rad = []float32{float32(math.NaN()), float32(math.Inf(1)), float32(math.Inf(-1))}[r.Intn(3)]
				g.t.Count("f:q:r-non-finite")
			case c <= 11 && target != nil:
				// the entity on the rim of the circle: centre = entity ± r on one axis (± a few ulp), radius = the computed distance ± ulps
				rr := []float32{0.25, 1, 2.5, 5, 7.3, 30, 100, 1e4, r.Float32() * 60}[r.Intn(9)]
				switch r.Intn(4) {
				case 0:
					q = define.Pos{X: nudge(target.X-rr, r.Intn(5)-2), Y: target.Y, Z: target.Z}
				case 1:
					q = define.Pos{X: nudge(target.X+rr, r.Intn(5)-2), Y: target.Y, Z: target.Z}
				case 2:
					q = define.Pos{X: target.X, Y: target.Y, Z: nudge(target.Z-rr, r.Intn(5)-2)}
				default:
					q = define.Pos{X: target.X + rr*0.6, Y: target.Y, Z: target.Z - rr*0.8}
				}
				d := q.Distance(*target)
				if finite(d) {
					rad = nudge(d, r.Intn(7)-3)
				} else {
					rad = rr
				}
				g.t.Count("f:q:r-at-distance±ulp")
			case c <= 13:
				rad = r.Float32() * ge.st * 3
				g.t.Count("f:q:r-zone-scale")
			default:
				rad = r.Float32() * 300
				g.t.Count("f:q:r-random")
			}
			own := ""
			if c := r.Intn(8); c < 2 {
				own = fmt.Sprintf(" own=%d", 1+r.Intn(pool))
				g.t.Count("f:q:searcher-rejects-owner")
			} else if c < 4 {
				own = fmt.Sprintf(" fp=%d", 1+r.Intn(pool))
				g.t.Count("f:q:searcher-FindPlayers")
			}
			obs := g.run(fmt.Sprintf("fq x=%s y=%s z=%s r=%s%s", fb(q.X), fb(q.Y), fb(q.Z), fb(rad), own))
			nq++
			ows := hx.Words(obs)
			zs, _ := hx.KV(ows, "z")
			bs, _ := hx.KV(ows, "b")
			nf, _ := hx.KV(ows, "nf")
			if lastHidden > 0 {
				g.t.Count("f:q:float32-distance-overflow-hides-an-in-range-entity(recorded)")
			}
			switch {
			case nf == "1":
				g.t.Count("f:q:non-finite-query")
				if zs != bs {
					g.t.Count("f:q:non-finite-query:zoned≠scan(recorded)")
				}
			case zs != bs:
				g.t.Count("f:q:zoned≠scan")
			case zs == "":
				g.t.Count("f:q:result-empty")
			default:
				g.t.Count("f:q:result-nonempty")
			}
		}
	}
}

// crowd cases ---------------------------------------------------------------
//
// Many entities (17..106, sometimes fewer) packed into one hot zone (a few land
// elsewhere), queried while the zone fills, then drained by removals and moves out
// of the zone until only a handful remain, with moves of the earliest survivors and
// queries aimed at the entities present in between, then an aftermath of re-adds,
// moves and queries.  The slices behind a zone / behind SimpleSpace grow through
// several capacities and lose most of their elements again — behaviour of the code
// that depends on len/cap of a slice (growth, shrinking, reslicing, pointers into
// a reallocated array) is only reachable this way.  `float` = the same case in the
// float stream's syntax (quarter-unit values as float32 bit patterns).
func (g *gen) caseCrowd(float bool) {
	r := g.t.R
	ge := geosX[r.Intn(len(geosX))]
	type P struct{ x, y, z int64 }
	tag := "cx"
	if float {
		tag = "cf"
	}
	g.t.Count(fmt.Sprintf("%s:geo:%d,%d,%d,%d/%d", tag, ge.bx, ge.bz, ge.ex, ge.ez, ge.st))
	num := func(v int64) string {
		if float {
			return fb(q4(v))
		}
		return strconv.FormatInt(v, 10)
	}
	pre := ""
	if float {
		pre = "f"
		if ge.def {
			g.run("reset kind=f default")
		} else {
			g.run(fmt.Sprintf("reset kind=f bx=%s bz=%s ex=%s ez=%s step=%s", num(ge.bx), num(ge.bz), num(ge.ex), num(ge.ez), num(ge.st)))
		}
	} else {
		g.run(ge.reset())
	}
	live := map[int]P{}
	var order []int // live ids, oldest first
	maxLive := 0
	add := func(id int, p P) {
		if _, ok := live[id]; !ok {
			live[id] = p
			order = append(order, id)
			if len(live) > maxLive {
				maxLive = len(live)
			}
		} else {
			g.t.Count(tag + ":add-live-id")
		}
		g.run(fmt.Sprintf("%sadd id=%d x=%s y=%s z=%s", pre, id, num(p.x), num(p.y), num(p.z)))
	}
	mov := func(id int, p P) {
		if _, ok := live[id]; ok {
			live[id] = p
		}
		g.run(fmt.Sprintf("%smov id=%d x=%s y=%s z=%s", pre, id, num(p.x), num(p.y), num(p.z)))
	}
	del := func(id int) {
		if _, ok := live[id]; ok {
			delete(live, id)
			for i, v := range order {
				if v == id {
					order = append(order[:i], order[i+1:]...)
					break
				}
			}
		}
		g.run(fmt.Sprintf("%sdel id=%d", pre, id))
	}
	// the hot zone
	nx, nz := (ge.ex-ge.bx)/ge.st, (ge.ez-ge.bz)/ge.st
	hx, hz := int64(r.Intn(int(nx)+1)), int64(r.Intn(int(nz)+1))
	hot := func() P {
		y := int64(0)
		if r.Intn(4) == 0 {
			y = int64(r.Intn(17)) - 8
		}
		return P{clampL(ge.bx + hx*ge.st + int64(r.Intn(int(ge.st)))), y, clampL(ge.bz + hz*ge.st + int64(r.Intn(int(ge.st))))}
	}
	away := func() P {
		return P{g.coordX(ge.bx, ge.ex, ge.st, tag+":coord"), 0, g.coordX(ge.bz, ge.ez, ge.st, tag+":coord")}
	}
	query := func() {
		var q P
		var rad int64
		switch c := r.Intn(8); {
		case c < 5 && len(order) > 0: // at a live entity (often one of the oldest), small radius
			id := order[r.Intn(len(order))]
			if r.Intn(2) == 0 {
				id = order[r.Intn(1+len(order)/4)]
			}
			q = live[id]
			rad = []int64{0, 1, 2, ge.st, int64(r.Intn(int(ge.st) + 2))}[r.Intn(5)]
			g.t.Count(tag + ":q:at-entity")
		case c < 7: // the whole hot zone
			q = P{clampL(ge.bx + hx*ge.st + ge.st/2), 0, clampL(ge.bz + hz*ge.st + ge.st/2)}
			rad = []int64{ge.st, 2 * ge.st, 3 * ge.st, 2048}[r.Intn(4)]
			g.t.Count(tag + ":q:hot-zone")
		default:
			q = away()
			rad = int64(r.Intn(600))
			g.t.Count(tag + ":q:random")
		}
		own := ""
		if c := r.Intn(8); c < 2 && len(order) > 0 {
			own = fmt.Sprintf(" own=%d", order[r.Intn(len(order))])
			g.t.Count(tag + ":q:searcher-rejects-owner")
		} else if c < 4 && len(order) > 0 {
			own = fmt.Sprintf(" fp=%d", order[r.Intn(len(order))])
			g.t.Count(tag + ":q:searcher-FindPlayers")
		}
		if r.Intn(6) == 0 && len(order) > 0 {
			g.unitOp(pre, tag, order[r.Intn(len(order))])
		}
		var obs string
		if float {
			obs = g.run(fmt.Sprintf("fq x=%s y=%s z=%s r=%s%s", num(q.x), num(q.y), num(q.z), num(rad), own))
		} else {
			obs = g.run(fmt.Sprintf("q x=%d y=%d z=%d r=%d%s", q.x, q.y, q.z, rad, own))
		}
		if strings.HasPrefix(obs, "z= ") {
			g.t.Count(tag + ":q:result-empty")
		} else {
			g.t.Count(tag + ":q:result-nonempty")
		}
	}
	n := 17 + r.Intn(90)
	if r.Intn(4) == 0 {
		n = 9 + r.Intn(32)
	}
	// fill
	for id := 1; id <= n; id++ {
		if r.Intn(8) == 0 {
			add(id, away())
		} else {
			add(id, hot())
		}
		if r.Intn(6) == 0 {
			query()
		}
		if r.Intn(12) == 0 && len(order) > 0 { // an early entity moves inside the crowd
			mov(order[r.Intn(1+len(order)/4)], hot())
			g.t.Count(tag + ":mov-early")
		}
	}
	query()
	// drain
	leave := r.Intn(9)
	perm := r.Perm(n)
	for _, k := range perm {
		if len(live) <= leave {
			break
		}
		id := k + 1
		switch c := r.Intn(12); {
		case c < 6:
			del(id)
			g.t.Count(tag + ":drain-del")
		case c < 10:
			mov(id, away())
			g.t.Count(tag + ":drain-mov-out")
		default:
			mov(id, hot())
			g.t.Count(tag + ":drain-mov-inside")
		}
		if r.Intn(5) == 0 {
			query()
		}
		if r.Intn(10) == 0 && len(order) > 0 {
			mov(order[r.Intn(1+len(order)/4)], hot())
			g.t.Count(tag + ":mov-early")
		}
	}
	query()
	// aftermath
	for i, m := 0, 8+r.Intn(16); i < m; i++ {
		switch c := r.Intn(10); {
		case c < 3:
			add(1+r.Intn(n), hot())
		case c < 6 && len(order) > 0:
			id := order[r.Intn(len(order))]
			if r.Intn(2) == 0 {
				mov(id, hot())
			} else {
				mov(id, away())
			}
		case c < 7 && len(order) > 0:
			del(order[r.Intn(len(order))])
		default:
			query()
		}
	}
	query()
	switch {
	case maxLive > 64:
		g.t.Count(tag + ":max-live>64")
	case maxLive > 32:
		g.t.Count(tag + ":max-live>32")
	case maxLive > 16:
		g.t.Count(tag + ":max-live>16")
	default:
		g.t.Count(tag + ":max-live<=16")
	}
}

func TestRun(t *testing.T) {
	h := hx.Open()
	defer h.Close()
	g := &gen{t: h}
	if ops := hx.ReplayOps(); ops != nil {
		for _, op := range ops {
			g.run(op)
		}
		return
	}
	for _, op := range hx.CorpusOps(hx.Env("VERIF_DIR", "/verif") + "/harness/corpus/C20") {
		g.run(op)
		h.Count("corpus-op")
	}
	n := hx.EnvInt("VERIF_N", 6000)
	stream := hx.Env("VERIF_STREAM", "both")
	for h.N < n {
		k := 20 + h.R.Intn(50)
		float := stream == "f" || (stream == "both" && h.R.Intn(2) == 0)
		switch {
		case h.R.Intn(12) == 0:
			g.caseCrowd(float)
		case !float:
			g.caseX(k)
		default:
			g.caseF(k)
		}
	}
}
