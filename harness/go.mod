module cell2verif

go 1.26.8

require (
	github.com/dfklegend/cell2 v0.0.0
	github.com/dfklegend/cell2/apimapper v0.0.0-00010101000000-000000000000
	github.com/dfklegend/cell2/pomelonet v0.0.0-00010101000000-000000000000
	github.com/dfklegend/cell2/utils v0.0.0-00010101000000-000000000000
)

require (
	github.com/lestrrat-go/file-rotatelogs v2.4.0+incompatible // indirect
	github.com/lestrrat-go/strftime v1.0.6 // indirect
	github.com/pkg/errors v0.9.1 // indirect
	github.com/rifflock/lfshook v0.0.0-20180920164130-b9218ef580f5 // indirect
	github.com/sirupsen/logrus v1.9.0 // indirect
	golang.org/x/sys v0.16.0 // indirect
)

replace (
	github.com/dfklegend/cell2 => /repo
	github.com/dfklegend/cell2/apimapper => /repo/apimapper
	github.com/dfklegend/cell2/pomelonet => /repo/pomelonet
	github.com/dfklegend/cell2/utils => /repo/utils
)
