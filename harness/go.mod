module cell2verif

go 1.26.8

require (
	github.com/asynkron/protoactor-go v0.0.0-20240308120642-ef91a6abee75
	github.com/dfklegend/cell2 v0.0.0
	github.com/dfklegend/cell2/apimapper v0.0.0-00010101000000-000000000000
	github.com/dfklegend/cell2/pomelonet v0.0.0-00010101000000-000000000000
	github.com/dfklegend/cell2/utils v0.0.0-00010101000000-000000000000
	github.com/gorilla/websocket v1.5.0
	github.com/sirupsen/logrus v1.9.0
	go.etcd.io/etcd/api/v3 v3.5.10
	go.etcd.io/etcd/client/v3 v3.5.10
	google.golang.org/protobuf v1.33.0
	mmo v0.0.0
)

require (
	github.com/VividCortex/ewma v1.1.1 // indirect
	github.com/Workiva/go-datastructures v1.1.1 // indirect
	github.com/alessio/shellescape v1.4.1 // indirect
	github.com/asynkron/gofun v0.0.0-20220329210725-34fed760f4c2 // indirect
	github.com/aws/aws-sdk-go v1.34.0 // indirect
	github.com/beorn7/perks v1.0.1 // indirect
	github.com/cbroglie/mustache v1.0.1 // indirect
	github.com/cespare/xxhash/v2 v2.2.0 // indirect
	github.com/cheggaaa/pb/v3 v3.0.5 // indirect
	github.com/coreos/go-semver v0.3.0 // indirect
	github.com/coreos/go-systemd/v22 v22.3.2 // indirect
	github.com/dustin/go-humanize v1.0.0 // indirect
	github.com/emirpasic/gods v1.18.1 // indirect
	github.com/fatih/color v1.14.1 // indirect
	github.com/fsnotify/fsnotify v1.6.0 // indirect
	github.com/go-logr/logr v1.3.0 // indirect
	github.com/go-logr/stdr v1.2.2 // indirect
	github.com/go-sql-driver/mysql v1.5.0 // indirect
	github.com/gogo/protobuf v1.3.2 // indirect
	github.com/golang/protobuf v1.5.3 // indirect
	github.com/google/uuid v1.5.0 // indirect
	github.com/hashicorp/hcl v1.0.0 // indirect
	github.com/jmespath/go-jmespath v0.3.0 // indirect
	github.com/json-iterator/go v1.1.12 // indirect
	github.com/lestrrat-go/file-rotatelogs v2.4.0+incompatible // indirect
	github.com/lestrrat-go/strftime v1.0.6 // indirect
	github.com/lib/pq v1.7.0 // indirect
	github.com/lithammer/shortuuid/v4 v4.0.0 // indirect
	github.com/lmittmann/tint v1.0.3 // indirect
	github.com/magiconair/properties v1.8.7 // indirect
	github.com/mattn/go-colorable v0.1.13 // indirect
	github.com/mattn/go-isatty v0.0.17 // indirect
	github.com/mattn/go-runewidth v0.0.7 // indirect
	github.com/mitchellh/mapstructure v1.5.0 // indirect
	github.com/modern-go/concurrent v0.0.0-20180306012644-bacd9c7ef1dd // indirect
	github.com/modern-go/reflect2 v1.0.2 // indirect
	github.com/montanaflynn/stats v0.6.3 // indirect
	github.com/orcaman/concurrent-map v1.0.0 // indirect
	github.com/pelletier/go-toml/v2 v2.0.5 // indirect
	github.com/petermattis/goid v0.0.0-20221215004737-a150e88a970d // indirect
	github.com/pkg/errors v0.9.1 // indirect
	github.com/prometheus/client_golang v1.19.0 // indirect
	github.com/prometheus/client_model v0.5.0 // indirect
	github.com/prometheus/common v0.48.0 // indirect
	github.com/prometheus/procfs v0.12.0 // indirect
	github.com/rifflock/lfshook v0.0.0-20180920164130-b9218ef580f5 // indirect
	github.com/spf13/afero v1.9.2 // indirect
	github.com/spf13/cast v1.5.0 // indirect
	github.com/spf13/jwalterweatherman v1.1.0 // indirect
	github.com/spf13/pflag v1.0.5 // indirect
	github.com/spf13/viper v1.14.0 // indirect
	github.com/subosito/gotenv v1.4.1 // indirect
	github.com/technoweenie/multipartstreamer v1.0.1 // indirect
	github.com/twmb/murmur3 v1.1.8 // indirect
	github.com/vadv/gopher-lua-libs v0.4.1 // indirect
	github.com/yuin/gluamapper v0.0.0-20150323120927-d836955830e7 // indirect
	github.com/yuin/gopher-lua v1.1.0 // indirect
	go.etcd.io/etcd/client/pkg/v3 v3.5.10 // indirect
	go.opentelemetry.io/otel v1.21.0 // indirect
	go.opentelemetry.io/otel/exporters/prometheus v0.44.0 // indirect
	go.opentelemetry.io/otel/metric v1.21.0 // indirect
	go.opentelemetry.io/otel/sdk v1.21.0 // indirect
	go.opentelemetry.io/otel/sdk/metric v1.21.0 // indirect
	go.opentelemetry.io/otel/trace v1.21.0 // indirect
	go.uber.org/atomic v1.9.0 // indirect
	go.uber.org/multierr v1.8.0 // indirect
	go.uber.org/zap v1.21.0 // indirect
	golang.org/x/exp v0.0.0-20231110203233-9a3e6036ecaa // indirect
	golang.org/x/net v0.20.0 // indirect
	golang.org/x/sys v0.16.0 // indirect
	golang.org/x/text v0.14.0 // indirect
	google.golang.org/genproto/googleapis/api v0.0.0-20231002182017-d307bd883b97 // indirect
	google.golang.org/genproto/googleapis/rpc v0.0.0-20231002182017-d307bd883b97 // indirect
	google.golang.org/grpc v1.60.1 // indirect
	gopkg.in/ini.v1 v1.67.0 // indirect
	gopkg.in/xmlpath.v2 v2.0.0-20150820204837-860cbeca3ebc // indirect
	gopkg.in/yaml.v2 v2.4.0 // indirect
	gopkg.in/yaml.v3 v3.0.1 // indirect
	layeh.com/gopher-luar v1.0.10 // indirect
)

replace (
	github.com/dfklegend/cell2 => /repo
	github.com/dfklegend/cell2/apimapper => /repo/apimapper
	github.com/dfklegend/cell2/pomelonet => /repo/pomelonet
	github.com/dfklegend/cell2/utils => /repo/utils
	github.com/fatih/color => github.com/fatih/color v1.13.0
	github.com/magiconair/properties => github.com/magiconair/properties v1.8.6
	github.com/mattn/go-colorable => github.com/mattn/go-colorable v0.1.12
	github.com/mattn/go-isatty => github.com/mattn/go-isatty v0.0.14
	mmo => /repo/_projects/mmo/server
)
