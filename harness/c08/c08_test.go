// C08 correspondence harness: drives the real etcd provider (initial listing, watch fold,
// publication) and the real service directory (app.Cluster / ClusterServices.MakeMembers and
// its getters) on generated and replayed op lines; one observation per op.
//
// The provider is driven through its EXPORTED surface only: etcd.NewWithConfig, StartMember,
// StartClient, UpdateClusterState, Shutdown, and the cluster.ICluster callback
// UpdateClusterTopology it publishes to.  No unexported identifier of package etcd is named
// anywhere (there is no overlay shim any more): the in-memory KV / Lease / Watcher stand-ins are
// plugged in by locating the provider's *clientv3.Client field BY TYPE (reflect + unsafe), the
// lease id by its type clientv3.LeaseID.  Renaming, moving or splitting unexported fields,
// methods and files of package etcd therefore cannot break this harness.
package c08

import (
	"context"
	"encoding/json"
	"fmt"
	"runtime"
	"sort"
	"strconv"
	"strings"
	"sync"
	"sync/atomic"
	"testing"
	"testing/synctest"
	"time"

	"github.com/sirupsen/logrus"
	pb "go.etcd.io/etcd/api/v3/etcdserverpb"
	"go.etcd.io/etcd/api/v3/mvccpb"
	clientv3 "go.etcd.io/etcd/client/v3"

	"cell2verif/hx"

	"github.com/dfklegend/cell2/node/app"
	"github.com/dfklegend/cell2/node/cluster"
	"github.com/dfklegend/cell2/node/config"
	"github.com/dfklegend/cell2/utils/logger"
)

// ---------------------------------------------------------------- recording ICluster

type recCluster struct {
	address  string
	name     string
	id       string
	state    int
	state0   int // the state given by the reset op (`state` ops before the provider starts change `state` only)
	services []string
	pubs     []string          // rendered publications since the last take()
	last     []*cluster.Member // last list handed over, as published
	dir      *app.Cluster      // the real directory, fed with every publication
	mute     bool              // publications are not recorded (StartClient's initial publication of an empty listing, see foldStart)
}

func (c *recCluster) GetAddress() string    { return c.address }
func (c *recCluster) GetName() string       { return c.name }
func (c *recCluster) GetID() string         { return c.id }
func (c *recCluster) GetState() int         { return c.state }
func (c *recCluster) GetServices() []string { return c.services }
func (c *recCluster) UpdateClusterTopology(ms []*cluster.Member) {
	if c.mute {
		return
	}
	c.pubs = append(c.pubs, showPub(ms))
	c.last = ms
	c.dir.UpdateClusterTopology(ms)
}
func (c *recCluster) take() []string { p := c.pubs; c.pubs = nil; return p }

// ---------------------------------------------------------------- rendering

func showMember(m *cluster.Member) string {
	return fmt.Sprintf("%s;%s;%d;%d;%s", m.Id, m.Host, m.Port, m.State, strings.Join(m.Services, ","))
}

func showPub(ms []*cluster.Member) string {
	xs := make([]string, len(ms))
	for i, m := range ms {
		xs[i] = showMember(m)
	}
	sort.Strings(xs)
	return "pub=" + strings.Join(xs, "&")
}

func showItem(it *app.ServiceItem) string {
	if it.PID == nil {
		return fmt.Sprintf("%s;%s;%d;-;-", it.Name, it.ClusterNodeID, it.State)
	}
	return fmt.Sprintf("%s;%s;%d;%s;%s", it.Name, it.ClusterNodeID, it.State, it.PID.Address, it.PID.Id)
}

func showList(tag, t string, l *app.ServiceList) string {
	if l == nil {
		return tag + ":" + t + "=nil"
	}
	xs := make([]string, len(l.Items))
	for i, it := range l.Items {
		xs[i] = showItem(it)
	}
	sort.Strings(xs)
	return tag + ":" + t + "=" + strings.Join(xs, "&")
}

func splitList(s string) []string {
	if s == "" {
		return nil
	}
	return strings.Split(s, ",")
}

// dump queries the real directory: members, per-type lists, working lists,
// name resolution, working names.  A name listed more than once resolves to an
// arbitrary one of its items in the code (Go map order): rendered dup<k>;in|out.
func dump(c *app.Cluster, types, names []string) string {
	var out []string
	var ids []string
	for id := range c.GetMembers() {
		ids = append(ids, id)
	}
	sort.Strings(ids)
	out = append(out, "mem="+strings.Join(ids, ","))
	for _, t := range types {
		out = append(out, showList("T", t, c.GetServiceList(t)))
	}
	for _, t := range types {
		out = append(out, showList("W", t, c.GetWorkServiceList(t)))
	}
	for _, n := range names {
		var cands []string
		for _, t := range types {
			if l := c.GetServiceList(t); l != nil {
				for _, it := range l.Items {
					if it.Name == n {
						cands = append(cands, showItem(it))
					}
				}
			}
		}
		r := c.GetService(n)
		if len(cands) > 1 {
			in := "out"
			if r != nil {
				for _, x := range cands {
					if x == showItem(r) {
						in = "in"
					}
				}
			}
			out = append(out, fmt.Sprintf("S:%s=dup%d;%s", n, len(cands), in))
		} else if r != nil {
			out = append(out, "S:"+n+"="+showItem(r))
		} else {
			out = append(out, "S:"+n+"=none")
		}
	}
	wn := c.GetWorkServiceNames()
	sort.Strings(wn)
	out = append(out, "WN="+strings.Join(wn, ","))
	return strings.Join(out, " ")
}

// ---------------------------------------------------------------- parsing

type jnode struct {
	ID       string   `json:"id"`
	Name     string   `json:"name"`
	Host     string   `json:"host"`
	Address  string   `json:"address"`
	Port     int      `json:"port"`
	Services []string `json:"services,omitempty"`
	Alive    bool     `json:"alive"`
	State    int      `json:"state"`
}

// nodeJSON turns a node token id;host;addr;port;state;alive;svcs into the JSON a
// peer would have written to etcd.
func nodeJSON(tok string) ([]byte, bool) {
	f := strings.Split(tok, ";")
	if len(f) != 7 {
		return nil, false
	}
	port, e1 := strconv.Atoi(f[3])
	state, e2 := strconv.Atoi(f[4])
	if e1 != nil || e2 != nil {
		return nil, false
	}
	b, _ := json.Marshal(jnode{ID: f[0], Name: f[0], Host: f[1], Address: f[2], Port: port, Services: splitList(f[6]),
		Alive: f[5] == "1", State: state})
	return b, true
}

var badValues = [][]byte{
	[]byte(`{"id":`),
	[]byte(`{"id":"c@n1","port":"notanumber","alive":true}`),
	{},
	[]byte(`[1,2]`),
	[]byte(`{"id":"c@n1","services":"gate.g1","alive":true}`),
	[]byte("\xff\xfe"),
}

func parseMember(tok string) *cluster.Member {
	f := strings.Split(tok, ";")
	if len(f) != 5 {
		return nil
	}
	port, e1 := strconv.Atoi(f[2])
	state, e2 := strconv.Atoi(f[3])
	if e1 != nil || e2 != nil {
		return nil
	}
	svcs := splitList(f[4])
	if svcs == nil {
		svcs = []string{}
	}
	return &cluster.Member{Id: f[0], Host: f[1], Port: int32(port), State: state, Services: svcs}
}

// ---------------------------------------------------------------- interpreter

type world struct {
	rc      *recCluster
	inited  bool     // the last reset succeeded (the provider's init accepts the node's address)
	fold    *foldRun // the started provider of the fold stream (started by the first list / watch op of a case)
	dir     *app.Cluster
	ordered bool
}

func newWorld() *world { return &world{dir: app.NewCluster(), ordered: true} }

// endFold stops the provider of the case (Shutdown, goroutines gone, bubble closed)
func (w *world) endFold() {
	if w.fold != nil {
		f := w.fold
		w.fold = nil
		f.end(true)
	}
}

func hasDupIds(ms []*cluster.Member) bool {
	seen := map[string]bool{}
	for _, m := range ms {
		if seen[m.Id] {
			return true
		}
		seen[m.Id] = true
	}
	return false
}

func (w *world) exec(op string) string {
	ws := hx.Words(op)
	if len(ws) == 0 {
		return "bad-op"
	}
	return hx.Guard(func() string {
		switch ws[0] {
		case "reset":
			name, ok1 := hx.KV(ws, "name")
			id, ok2 := hx.KV(ws, "id")
			host, ok3 := hx.KV(ws, "host")
			ports, ok4 := hx.KV(ws, "port")
			sts, ok5 := hx.KV(ws, "state")
			svcs, ok6 := hx.KV(ws, "svcs")
			port, e1 := strconv.Atoi(ports)
			st, e2 := strconv.Atoi(sts)
			w.endFold()
			*w = *newWorld()
			if !(ok1 && ok2 && ok3 && ok4 && ok5 && ok6) || e1 != nil || e2 != nil {
				return "bad-op"
			}
			addr := host + ":" + strconv.Itoa(port)
			if host == "nonhost" {
				addr = "nonhost"
			}
			services := splitList(svcs)
			w.rc = &recCluster{address: addr, name: name, id: id, state: st, state0: st, services: services, dir: w.dir}
			// what the provider's init makes of these getters: StartMember on an empty store publishes the node itself
			obs := probeSelf(w.rc)
			w.inited = strings.HasPrefix(obs, "self=")
			return obs
		case "mk":
			var ms []*cluster.Member
			for _, t := range ws[1:] {
				if strings.HasPrefix(t, "M~") {
					if m := parseMember(t[2:]); m != nil {
						ms = append(ms, m)
					}
				}
			}
			w.dir.UpdateClusterTopology(ms)
			if w.rc != nil {
				w.rc.last = ms
			}
			w.ordered = true
			types, _ := hx.KV(ws, "types")
			names, _ := hx.KV(ws, "names")
			return dump(w.dir, splitList(types), splitList(names))
		case "stress":
			if big := hx.KVInt(ws, "big"); big > 0 {
				return stressWide(big, hx.KVInt(ws, "swaps"))
			}
			return stress(hx.KVInt(ws, "n"))
		case "start":
			return w.startMember(ws)
		case "sys":
			return w.sysRun(ws)
		case "selfcluster":
			// cluster disabled (clustermodule.makeSelfCluster): InitSelf, BuildSelfClusterTopology, UpdateClusterTopology
			name, ok1 := hx.KV(ws, "name")
			id, ok2 := hx.KV(ws, "id")
			host, ok3 := hx.KV(ws, "host")
			ports, ok4 := hx.KV(ws, "port")
			svcs, ok5 := hx.KV(ws, "svcs")
			cfgs, ok6 := hx.KV(ws, "cfg")
			port, e1 := strconv.Atoi(ports)
			if !(ok1 && ok2 && ok3 && ok4 && ok5 && ok6) || e1 != nil {
				return "bad-op"
			}
			addr := host + ":" + strconv.Itoa(port)
			if host == "nonhost" {
				addr = "nonhost"
			}
			cfg := map[string]*config.ServiceInfo{}
			for _, e := range splitList(cfgs) {
				if f := strings.Split(e, ":"); len(f) == 2 {
					cfg[f[0]] = &config.ServiceInfo{Type: f[1]}
				}
			}
			c := app.NewCluster()
			c.InitSelf(addr, &config.ClusterInfo{Name: name}, id, splitList(svcs), cfg)
			ms := c.BuildSelfClusterTopology()
			c.UpdateClusterTopology(ms)
			types, _ := hx.KV(ws, "types")
			names, _ := hx.KV(ws, "names")
			return showPub(ms) + " " + dump(c, splitList(types), splitList(names))
		case "dir":
			if !w.ordered && w.rc != nil && hasDupIds(w.rc.last) {
				return "dupids"
			}
			types, _ := hx.KV(ws, "types")
			names, _ := hx.KV(ws, "names")
			return dump(w.dir, splitList(types), splitList(names))
		}
		if !w.inited {
			return "noinit"
		}
		switch ws[0] {
		case "list":
			// the initial listing = what the store returns to StartMember's Get
			var listing []*mvccpb.KeyValue
			for _, t := range ws[1:] {
				b, ok := nodeJSON(t)
				if !ok {
					return "bad-op"
				}
				id := strings.SplitN(t, ";", 2)[0]
				listing = append(listing, &mvccpb.KeyValue{Key: []byte(key(id)), Value: b})
			}
			if w.fold != nil {
				return "unsupported-second-listing" // a provider lists once, when it starts
			}
			f, err := foldStart(w.rc, listing, true)
			if err != nil {
				return "starterr"
			}
			w.fold = f
			w.ordered = false
			pubs := w.rc.take()
			if len(pubs) == 0 {
				return "none"
			}
			return strings.Join(pubs, " ")
		case "state":
			v, ok := hx.KV(ws, "s")
			st, err := strconv.Atoi(v)
			if !ok || err != nil {
				return "bad-op"
			}
			if w.fold != nil {
				w.fold.b.do(func() { w.fold.p.UpdateClusterState(st) })
			} else {
				// not started yet: the provider will read the state from ICluster.GetState() when it starts
				w.rc.state = st
			}
			return "ok"
		case "watch":
			var resps []clientv3.WatchResponse
			cur := clientv3.WatchResponse{}
			for _, t := range ws[1:] {
				if t == "|" {
					resps = append(resps, cur)
					cur = clientv3.WatchResponse{}
					continue
				}
				if t == "E" {
					cur.CompactRevision = 1
					continue
				}
				f := strings.Split(t, "~")
				switch {
				case len(f) == 3 && f[0] == "P":
					b, ok := nodeJSON(f[2])
					if !ok {
						return "bad-op"
					}
					cur.Events = append(cur.Events, &clientv3.Event{Type: mvccpb.PUT, Kv: &mvccpb.KeyValue{Key: []byte(f[1]), Value: b}})
				case len(f) == 3 && f[0] == "B":
					k, _ := strconv.Atoi(f[2])
					cur.Events = append(cur.Events, &clientv3.Event{Type: mvccpb.PUT, Kv: &mvccpb.KeyValue{Key: []byte(f[1]), Value: badValues[k%len(badValues)]}})
				case len(f) == 2 && f[0] == "D":
					cur.Events = append(cur.Events, &clientv3.Event{Type: mvccpb.DELETE, Kv: &mvccpb.KeyValue{Key: []byte(f[1])}})
				case len(f) == 2 && f[0] == "X":
					cur.Events = append(cur.Events, &clientv3.Event{Type: mvccpb.Event_EventType(7), Kv: &mvccpb.KeyValue{Key: []byte(f[1])}})
				default:
					return "bad-op"
				}
			}
			resps = append(resps, cur)
			if w.fold == nil {
				// responses without a listing: the provider after init with nothing listed = StartClient on an empty store
				f, err := foldStart(w.rc, nil, false)
				if err != nil {
					return "starterr"
				}
				w.fold = f
			}
			ret := w.fold.watch(resps)
			pubs := w.rc.take()
			if len(pubs) > 0 {
				w.ordered = false
			}
			pubs = append(pubs, ret)
			return strings.Join(pubs, " ")
		}
		return "bad-op"
	})
}

// ---------------------------------------------------------------- StartMember against an in-memory etcd

// In-memory stand-ins for the three clientv3 interfaces StartMember touches.  Get returns the
// initial listing; the watcher delivers one response as soon as (a) the watch has been opened
// and (b) the first publication is under way; KeepAlive never answers.
type memKV struct {
	clientv3.KV
	listing []*mvccpb.KeyValue
}

func (k *memKV) Get(ctx context.Context, key string, opts ...clientv3.OpOption) (*clientv3.GetResponse, error) {
	return &clientv3.GetResponse{Header: &pb.ResponseHeader{Revision: 1}, Kvs: k.listing}, nil
}
func (k *memKV) Put(ctx context.Context, key, val string, opts ...clientv3.OpOption) (*clientv3.PutResponse, error) {
	return &clientv3.PutResponse{Header: &pb.ResponseHeader{Revision: 3}}, nil
}
func (k *memKV) Delete(ctx context.Context, key string, opts ...clientv3.OpOption) (*clientv3.DeleteResponse, error) {
	return &clientv3.DeleteResponse{Header: &pb.ResponseHeader{Revision: 4}}, nil
}

type memLease struct {
	clientv3.Lease
	mu  sync.Mutex
	chs []chan *clientv3.LeaseKeepAliveResponse
	st  *memStore // `sys` op: revoking the lease deletes the keys the provider wrote
}

func (l *memLease) KeepAlive(ctx context.Context, id clientv3.LeaseID) (<-chan *clientv3.LeaseKeepAliveResponse, error) {
	ch := make(chan *clientv3.LeaseKeepAliveResponse)
	l.mu.Lock()
	l.chs = append(l.chs, ch)
	l.mu.Unlock()
	return ch, nil
}
func (l *memLease) Revoke(ctx context.Context, id clientv3.LeaseID) (*clientv3.LeaseRevokeResponse, error) {
	if l.st != nil {
		l.st.mu.Lock()
		var keys []string
		for k := range l.st.leased {
			keys = append(keys, k)
		}
		sort.Strings(keys)
		for _, k := range keys {
			l.st.apply(sysWrite{key: k})
		}
		l.st.leased = map[string]bool{}
		l.st.mu.Unlock()
	}
	return &clientv3.LeaseRevokeResponse{}, nil
}

// tick: a keep-alive answer for whoever is waiting for one
func (l *memLease) tick() {
	l.mu.Lock()
	for _, ch := range l.chs {
		select {
		case ch <- &clientv3.LeaseKeepAliveResponse{ID: 77, TTL: 3}:
		default:
		}
	}
	l.mu.Unlock()
}
func (l *memLease) closeAll() {
	l.mu.Lock()
	for _, ch := range l.chs {
		close(ch)
	}
	l.chs = nil
	l.mu.Unlock()
}

type memWatcher struct {
	clientv3.Watcher
	release <-chan struct{}
	resp    *clientv3.WatchResponse
	once    sync.Once
}

func (w *memWatcher) Watch(ctx context.Context, key string, opts ...clientv3.OpOption) clientv3.WatchChan {
	ch := make(chan clientv3.WatchResponse, 1)
	go func() {
		defer close(ch)
		w.once.Do(func() {
			if w.resp == nil {
				return
			}
			select {
			case <-w.release:
				ch <- *w.resp
			case <-ctx.Done():
			}
		})
		<-ctx.Done()
	}()
	return ch
}

// holdCluster is a directory sink whose FIRST store is slow: the goroutine that publishes the
// initial topology is held between computing it and storing it until a second publication has
// been stored or 500ms (virtual) have passed.  With the code's order (publish, then start the
// watch) nobody else can publish meanwhile and the hold just times out.
type holdCluster struct {
	recCluster
	mu           sync.Mutex
	calls        int
	firstEntered chan struct{}
	secondDone   chan struct{}
	stored       []string
}

func (c *holdCluster) UpdateClusterTopology(ms []*cluster.Member) {
	c.mu.Lock()
	c.calls++
	n := c.calls
	c.mu.Unlock()
	if n == 1 {
		close(c.firstEntered)
		select {
		case <-c.secondDone:
		case <-time.After(500 * time.Millisecond):
		}
	}
	c.mu.Lock()
	c.dir.UpdateClusterTopology(ms)
	c.stored = append(c.stored, showPub(ms))
	c.last = ms
	c.mu.Unlock()
	if n == 2 {
		close(c.secondDone)
	}
}

var curT *testing.T

// startMember runs the real StartMember (listing -> publish -> watch -> register -> keep-alive)
// in a synctest bubble and reports the member list the directory holds in the end.
func (w *world) startMember(ws []string) string {
	if w.rc == nil {
		return "noinit"
	}
	var listing []*mvccpb.KeyValue
	resp := &clientv3.WatchResponse{Header: pb.ResponseHeader{Revision: 2}}
	after := false
	for _, t := range ws[1:] {
		if t == "|" {
			after = true
			continue
		}
		if !after {
			b, ok := nodeJSON(t)
			if !ok {
				return "bad-op"
			}
			id := strings.SplitN(t, ";", 2)[0]
			listing = append(listing, &mvccpb.KeyValue{Key: []byte(key(id)), Value: b})
			continue
		}
		f := strings.Split(t, "~")
		switch {
		case len(f) == 3 && f[0] == "P":
			b, ok := nodeJSON(f[2])
			if !ok {
				return "bad-op"
			}
			resp.Events = append(resp.Events, &clientv3.Event{Type: mvccpb.PUT, Kv: &mvccpb.KeyValue{Key: []byte(f[1]), Value: b}})
		case len(f) == 3 && f[0] == "B":
			k, _ := strconv.Atoi(f[2])
			resp.Events = append(resp.Events, &clientv3.Event{Type: mvccpb.PUT, Kv: &mvccpb.KeyValue{Key: []byte(f[1]), Value: badValues[k%len(badValues)]}})
		case len(f) == 2 && f[0] == "D":
			resp.Events = append(resp.Events, &clientv3.Event{Type: mvccpb.DELETE, Kv: &mvccpb.KeyValue{Key: []byte(f[1])}})
		default:
			return "bad-op"
		}
	}
	obs := "panic"
	p := newProvider()
	synctest.Test(curT, func(t *testing.T) {
		c := &holdCluster{firstEntered: make(chan struct{}), secondDone: make(chan struct{})}
		c.recCluster = recCluster{address: w.rc.address, name: w.rc.name, id: w.rc.id, state: w.rc.state0,
			services: w.rc.services, dir: app.NewCluster()}
		lease := &memLease{}
		wt := &memWatcher{release: c.firstEntered}
		if len(resp.Events) > 0 {
			wt.resp = resp
		}
		installClient(p, &clientv3.Client{KV: &memKV{listing: listing}, Lease: lease, Watcher: wt})
		err := p.StartMember(c)
		synctest.Wait()
		c.mu.Lock()
		if err != nil {
			obs = "err"
		} else {
			obs = fmt.Sprintf("stores=%d final=%s", len(c.stored), strings.TrimPrefix(showPub(c.last), "pub="))
		}
		c.mu.Unlock()
		p.Shutdown(true)
		lease.closeAll()
		synctest.Wait()
	})
	return obs
}

// ---------------------------------------------------------------- the provider in front of an in-memory etcd store

// memStore is a small etcd: a revisioned key/value store under one prefix with an event log, and
// watch sessions.  Documented etcd behaviour only: a PUT always produces an event, a DELETE only
// when the key existed; a watch created without a start revision sees the writes made after its
// creation, one created with WithRev(r) is first handed the logged events with revision >= r.
type memStore struct {
	mu      sync.Mutex
	kv      map[string][]byte
	rev     int64
	log     []*clientv3.Event
	sess    *watchSess
	watches int
	gap     []sysWrite // writes that happen right after the first Get (before anything else the provider does)
	gapDone bool
	// closed when the first watch has been created: the provider's own Put calls wait for it, which
	// fixes one of the possible schedules of StartMember (watch goroutine first, then registerService)
	opened     chan struct{}
	openedOnce sync.Once
	leased     map[string]bool // keys written by the provider itself (all under its lease)
	failPut    bool            // the store refuses the provider's Put calls (mode=regfail)
}

type sysWrite struct {
	put bool
	key string
	val []byte
}

type watchSess struct {
	ch      chan clientv3.WatchResponse
	pending []*clientv3.Event
	once    sync.Once
}

func (s *watchSess) close() { s.once.Do(func() { close(s.ch) }) }

// send hands a response to the watch; a watch the provider has cancelled meanwhile (its channel is
// closed) takes nothing
func (s *watchSess) send(r clientv3.WatchResponse) {
	defer func() { _ = recover() }()
	s.ch <- r
}

// apply performs one write (lock held by the caller)
func (s *memStore) apply(w sysWrite) {
	var ev *clientv3.Event
	if w.put {
		s.rev++
		s.kv[w.key] = w.val
		ev = &clientv3.Event{Type: mvccpb.PUT, Kv: &mvccpb.KeyValue{Key: []byte(w.key), Value: w.val, ModRevision: s.rev}}
	} else {
		if _, ok := s.kv[w.key]; !ok {
			return
		}
		s.rev++
		delete(s.kv, w.key)
		ev = &clientv3.Event{Type: mvccpb.DELETE, Kv: &mvccpb.KeyValue{Key: []byte(w.key), ModRevision: s.rev}}
	}
	s.log = append(s.log, ev)
	if s.sess != nil {
		s.sess.pending = append(s.sess.pending, ev)
	}
}

func (s *memStore) write(w sysWrite) {
	s.mu.Lock()
	s.apply(w)
	s.mu.Unlock()
}

// deliver hands the pending events of the open watch over as one response
func (s *memStore) deliver() {
	s.mu.Lock()
	if s.sess != nil {
		evs := s.sess.pending
		s.sess.pending = nil
		s.sess.send(clientv3.WatchResponse{Header: pb.ResponseHeader{Revision: s.rev}, Events: evs})
	}
	s.mu.Unlock()
}

// fail makes the open watch report an error (compacted) and end; what it had pending is gone
func (s *memStore) fail() {
	s.mu.Lock()
	if s.sess != nil {
		s.sess.send(clientv3.WatchResponse{CompactRevision: 1})
		s.sess.close()
		s.sess = nil
	}
	s.mu.Unlock()
}

type storeKV struct {
	clientv3.KV
	s *memStore
}

func (k storeKV) Get(ctx context.Context, key string, opts ...clientv3.OpOption) (*clientv3.GetResponse, error) {
	s := k.s
	s.mu.Lock()
	defer s.mu.Unlock()
	var keys []string
	for x := range s.kv {
		if strings.HasPrefix(x, key) {
			keys = append(keys, x)
		}
	}
	sort.Strings(keys)
	resp := &clientv3.GetResponse{Header: &pb.ResponseHeader{Revision: s.rev}}
	for _, x := range keys {
		resp.Kvs = append(resp.Kvs, &mvccpb.KeyValue{Key: []byte(x), Value: s.kv[x]})
	}
	if !s.gapDone {
		s.gapDone = true
		for _, w := range s.gap {
			s.apply(w)
		}
	}
	return resp, nil
}
func (k storeKV) Put(ctx context.Context, key, val string, opts ...clientv3.OpOption) (*clientv3.PutResponse, error) {
	<-k.s.opened
	if k.s.failPut {
		return nil, fmt.Errorf("etcdserver: request refused")
	}
	k.s.mu.Lock()
	k.s.leased[key] = true
	k.s.apply(sysWrite{put: true, key: key, val: []byte(val)})
	k.s.mu.Unlock()
	return &clientv3.PutResponse{Header: &pb.ResponseHeader{Revision: k.s.rev}}, nil
}
func (k storeKV) Delete(ctx context.Context, key string, opts ...clientv3.OpOption) (*clientv3.DeleteResponse, error) {
	k.s.write(sysWrite{key: key})
	return &clientv3.DeleteResponse{Header: &pb.ResponseHeader{Revision: k.s.rev}}, nil
}

type storeWatcher struct {
	clientv3.Watcher
	s *memStore
}

func (w storeWatcher) Watch(ctx context.Context, key string, opts ...clientv3.OpOption) clientv3.WatchChan {
	s := w.s
	s.mu.Lock()
	defer s.mu.Unlock()
	s.watches++
	sess := &watchSess{ch: make(chan clientv3.WatchResponse, 16)}
	if from := clientv3.OpGet(key, opts...).Rev(); from > 0 {
		for _, ev := range s.log {
			if ev.Kv.ModRevision >= from {
				sess.pending = append(sess.pending, ev)
			}
		}
	}
	if s.sess != nil {
		s.sess.close()
	}
	s.sess = sess
	s.openedOnce.Do(func() { close(s.opened) })
	go func() {
		<-ctx.Done()
		sess.close()
	}()
	return sess.ch
}

func parseSysWrite(f []string) (sysWrite, bool) {
	switch {
	case len(f) == 3 && f[0] == "P":
		b, ok := nodeJSON(f[2])
		return sysWrite{put: true, key: f[1], val: b}, ok
	case len(f) == 2 && f[0] == "D":
		return sysWrite{key: f[1]}, true
	}
	return sysWrite{}, false
}

// sysRun: the real StartMember / StartClient against memStore, then a script of writes by other
// nodes (W~..), writes that fall between the listing and the creation of the watch (G~..),
// deliveries of everything pending as one response (V), watch failures (F), own state changes (S~st),
// keep-alive answers (K).  mode=regfail: StartMember against a store that refuses the provider's Put
// (registerService fails after startWatching(): the error is returned, the watcher lives on).
// Observed: number of client.Watch calls, number of publications, the last published member list.
func (w *world) sysRun(ws []string) string {
	if w.rc == nil {
		return "noinit"
	}
	mode, _ := hx.KV(ws, "mode")
	if mode != "member" && mode != "client" && mode != "regfail" {
		return "bad-op"
	}
	st := &memStore{kv: map[string][]byte{}, opened: make(chan struct{}), leased: map[string]bool{}, failPut: mode == "regfail"}
	type step struct {
		kind  string
		w     sysWrite
		state int
	}
	var steps []step
	after := false
	for _, t := range ws[1:] {
		if strings.HasPrefix(t, "mode=") {
			continue
		}
		if t == "|" {
			if after {
				return "bad-op"
			}
			after = true
			continue
		}
		if !after {
			b, ok := nodeJSON(t)
			if !ok {
				return "bad-op"
			}
			id := strings.SplitN(t, ";", 2)[0]
			st.apply(sysWrite{put: true, key: key(id), val: b})
			continue
		}
		f := strings.Split(t, "~")
		switch {
		case t == "F":
			steps = append(steps, step{kind: "F"})
		case t == "V":
			steps = append(steps, step{kind: "V"})
		case t == "K":
			steps = append(steps, step{kind: "K"})
		case len(f) == 2 && f[0] == "S":
			n, err := strconv.Atoi(f[1])
			if err != nil {
				return "bad-op"
			}
			steps = append(steps, step{kind: "S", state: n})
		case f[0] == "G" || f[0] == "W":
			sw, ok := parseSysWrite(f[1:])
			if !ok {
				return "bad-op"
			}
			if f[0] == "G" {
				st.gap = append(st.gap, sw)
			} else {
				steps = append(steps, step{kind: "W", w: sw})
			}
		default:
			return "bad-op"
		}
	}
	if !after {
		return "bad-op"
	}
	obs := "panic"
	p := newProvider()
	synctest.Test(curT, func(t *testing.T) {
		c := &recCluster{address: w.rc.address, name: w.rc.name, id: w.rc.id, state: w.rc.state0,
			services: w.rc.services, dir: app.NewCluster()}
		lease := &memLease{st: st}
		installClient(p, &clientv3.Client{KV: storeKV{s: st}, Lease: lease, Watcher: storeWatcher{s: st}})
		var err error
		if mode == "client" {
			err = p.StartClient(c)
		} else {
			err = p.StartMember(c)
		}
		synctest.Wait()
		// mode=regfail: StartMember must report the refused registration; the watcher it started before lives on
		pre := ""
		if mode == "regfail" {
			if err != nil {
				pre = "regerr "
			} else {
				pre = "regok "
			}
			err = nil
		}
		if err != nil {
			obs = "err"
		} else {
			for _, s := range steps {
				switch s.kind {
				case "W":
					st.write(s.w)
				case "V":
					st.deliver()
				case "F":
					st.fail()
				case "S":
					p.UpdateClusterState(s.state)
				case "K":
					lease.tick()
				}
				synctest.Wait()
			}
			st.mu.Lock()
			watches := st.watches
			st.mu.Unlock()
			obs = pre + fmt.Sprintf("watches=%d pubs=%d final=%s", watches, len(c.pubs), strings.TrimPrefix(showPub(c.last), "pub="))
		}
		p.Shutdown(true)
		lease.closeAll()
		synctest.Wait()
	})
	return obs
}

// ---------------------------------------------------------------- reader/updater smoke run

// stress alternates two member lists through the real UpdateClusterTopology while reader
// goroutines query the same directory without any lock (as TestSync does); every answer must
// be the answer of one of the two completely built views.  A smoke test only: the theorem
// read_sees_whole_view covers all interleavings of the model.
func stress(n int) string {
	a := []*cluster.Member{{Id: "c@n1", Host: "h1", Port: 7001, State: 1, Services: []string{"gate.g1", "gate.g2"}}}
	b := []*cluster.Member{
		{Id: "c@n2", Host: "h2", Port: 7002, State: 1, Services: []string{"chat.c1", "logic.g1"}},
		{Id: "c@n3", Host: "h3", Port: 7003, State: 2, Services: []string{"chat.c2"}},
	}
	queries := []func(c *app.Cluster) string{
		func(c *app.Cluster) string { return showList("T", "gate", c.GetServiceList("gate")) },
		func(c *app.Cluster) string { return showList("T", "chat", c.GetServiceList("chat")) },
		func(c *app.Cluster) string { return showList("W", "gate", c.GetWorkServiceList("gate")) },
		func(c *app.Cluster) string { return showList("W", "chat", c.GetWorkServiceList("chat")) },
		func(c *app.Cluster) string {
			if it := c.GetService("g1"); it != nil {
				return showItem(it)
			}
			return "none"
		},
		func(c *app.Cluster) string {
			if it := c.GetService("c2"); it != nil {
				return showItem(it)
			}
			return "none"
		},
		func(c *app.Cluster) string {
			x := c.GetWorkServiceNames()
			sort.Strings(x)
			return strings.Join(x, ",")
		},
		func(c *app.Cluster) string {
			var ids []string
			for id := range c.GetMembers() {
				ids = append(ids, id)
			}
			sort.Strings(ids)
			return strings.Join(ids, ",")
		},
	}
	ca, cb := app.NewCluster(), app.NewCluster()
	ca.UpdateClusterTopology(a)
	cb.UpdateClusterTopology(b)
	wantA, wantB := make([]string, len(queries)), make([]string, len(queries))
	for i, q := range queries {
		wantA[i], wantB[i] = q(ca), q(cb)
	}
	shared := app.NewCluster()
	shared.UpdateClusterTopology(a)
	var stop atomic.Bool
	var wg sync.WaitGroup
	results := make([]string, 4)
	for r := 0; r < len(results); r++ {
		wg.Add(1)
		go func(r int) {
			defer wg.Done()
			defer func() {
				if e := recover(); e != nil {
					results[r] = "panic"
				}
			}()
			for i := 0; !stop.Load(); i++ {
				k := (i + r) % len(queries)
				if got := queries[k](shared); got != wantA[k] && got != wantB[k] {
					results[r] = fmt.Sprintf("mixed:query%d", k)
					return
				}
			}
		}(r)
	}
	for i := 0; i < n; i++ {
		if i%2 == 0 {
			shared.UpdateClusterTopology(b)
		} else {
			shared.UpdateClusterTopology(a)
		}
	}
	stop.Store(true)
	wg.Wait()
	for _, x := range results {
		if x != "" {
			return x
		}
	}
	return "ok"
}

// stressWide is the same smoke run with views of very different SIZE: a view with `big`
// working services on one node alternates with a one-service view, so that a query that walks
// the directory takes long enough for a publication to land inside it (the tiny views of
// `stress` leave a window of nanoseconds).  The updater publishes through the real
// UpdateClusterTopology; it swaps big -> small while a reader is known to be inside a query
// (reader progress counters, a different delay on every swap) and small -> big while the
// readers are spinning on the small view.  Every answer is reduced to an order-independent
// fingerprint (length, number of empty names, sum of FNV hashes) and must be the fingerprint
// of one of the two completely built views; a panic inside a query (e.g. an index computed
// on one view and used on the other) is reported as well.
func stressWide(big, swaps int) string {
	svcs := make([]string, big)
	for i := range svcs {
		svcs[i] = "gate.g" + strconv.Itoa(i)
	}
	a := []*cluster.Member{{Id: "c@n1", Host: "h1", Port: 7001, State: 1, Services: svcs}}
	b := []*cluster.Member{{Id: "c@n2", Host: "h2", Port: 7002, State: 1, Services: []string{"gate.x1"}}}
	hash := func(parts ...string) uint64 {
		var x uint64 = 14695981039346656037
		for _, p := range parts {
			for i := 0; i < len(p); i++ {
				x = (x ^ uint64(p[i])) * 1099511628211
			}
			x = (x ^ 0xff) * 1099511628211
		}
		return x
	}
	fpList := func(l *app.ServiceList) string {
		if l == nil {
			return "nil"
		}
		var sum uint64
		for _, it := range l.Items {
			if it == nil {
				sum += 1
				continue
			}
			addr := "-"
			if it.PID != nil {
				addr = it.PID.Address + "/" + it.PID.Id
			}
			sum += hash(it.Name, it.ClusterNodeID, strconv.Itoa(it.State), addr)
		}
		return fmt.Sprintf("len=%d sum=%x", len(l.Items), sum)
	}
	getService := func(n string) func(c *app.Cluster) string {
		return func(c *app.Cluster) string {
			if it := c.GetService(n); it != nil {
				return showItem(it)
			}
			return "none"
		}
	}
	names := []string{"GetServiceList", "GetWorkServiceList", "GetWorkServiceNames", "GetService", "GetService", "GetMembers"}
	queries := []func(c *app.Cluster) string{
		func(c *app.Cluster) string { return fpList(c.GetServiceList("gate")) },
		func(c *app.Cluster) string { return fpList(c.GetWorkServiceList("gate")) },
		func(c *app.Cluster) string {
			xs := c.GetWorkServiceNames()
			var sum uint64
			empty := 0
			for _, x := range xs {
				if x == "" {
					empty++
				}
				sum += hash(x)
			}
			return fmt.Sprintf("len=%d empty=%d sum=%x", len(xs), empty, sum)
		},
		getService("g"+strconv.Itoa(big-1)),
		getService("x1"),
		func(c *app.Cluster) string {
			var ids []string
			for id, m := range c.GetMembers() {
				ids = append(ids, id+":"+strconv.Itoa(len(m.Services)))
			}
			sort.Strings(ids)
			return strings.Join(ids, ",")
		},
	}
	ca, cb := app.NewCluster(), app.NewCluster()
	ca.UpdateClusterTopology(a)
	cb.UpdateClusterTopology(b)
	wantA, wantB := make([]string, len(queries)), make([]string, len(queries))
	for i, q := range queries {
		wantA[i], wantB[i] = q(ca), q(cb)
	}
	shared := app.NewCluster()
	shared.UpdateClusterTopology(b)
	const readers = 4
	var stop atomic.Bool
	var wg sync.WaitGroup
	results := make([]string, readers)
	var progress [readers]atomic.Int64
	var failed atomic.Bool
	for r := 0; r < readers; r++ {
		wg.Add(1)
		go func(r int) {
			defer wg.Done()
			k := 0
			defer func() {
				if e := recover(); e != nil {
					results[r] = "panic:" + names[k]
					failed.Store(true)
				}
			}()
			for i := 0; !stop.Load(); i++ {
				// every second query of a reader is the directory walk (the longest query)
				if i%2 == 0 {
					k = 2
				} else {
					k = (i/2 + r) % len(queries)
				}
				progress[r].Add(1)
				if got := queries[k](shared); got != wantA[k] && got != wantB[k] {
					results[r] = fmt.Sprintf("mixed:%s[%s]", names[k], strings.ReplaceAll(got, " ", ","))
					failed.Store(true)
					return
				}
			}
		}(r)
	}
	waitProgress := func(r int, d int64) {
		p0 := progress[r].Load()
		deadline := time.Now().Add(2 * time.Second)
		for progress[r].Load() < p0+d && !failed.Load() && time.Now().Before(deadline) {
			runtime.Gosched()
		}
	}
	for i := 0; i < swaps && !failed.Load(); i++ {
		shared.UpdateClusterTopology(a)
		// a reader has started a query on the big view; land the small view inside it
		r := i % readers
		waitProgress(r, 2)
		for spin := 0; spin < (i%7)*(big/8+1); spin++ {
			runtime.Gosched()
		}
		shared.UpdateClusterTopology(b)
		waitProgress(r, 50)
	}
	stop.Store(true)
	wg.Wait()
	for _, x := range results {
		if x != "" {
			return x
		}
	}
	return "ok"
}

// ---------------------------------------------------------------- generator

const selfID = "c@n0"

var (
	nodeIDs  = []string{"c@n0", "c@n1", "c@n2", "c@n3"}
	svcPool  = []string{"gate.g1", "gate.g2", "chat.c1", "chat.c2", "logic.l1", "gate.g9", "chat.g1", "logic.l2"}
	badNames = []string{"noname", "a.b.c", ".q", "t.", "", "gate..x"}
	allTypes = "gate,chat,logic,zz"
	allNames = "g0,g1,g2,g9,c0,c1,c2,l1,l2,q,x"
)

type gen struct{ h *hx.T }

func (g *gen) svcs(i int, rich bool) string {
	r := g.h.R
	var s []string
	n := r.Intn(4)
	for k := 0; k < n; k++ {
		switch {
		case rich && r.Intn(8) == 0:
			s = append(s, badNames[r.Intn(len(badNames))])
			g.h.Count("svc:malformed")
		case r.Intn(3) == 0:
			// a name of the shared pool: duplicates across nodes happen
			s = append(s, svcPool[r.Intn(len(svcPool))])
		default:
			// a name owned by node i
			t := []string{"gate", "chat", "logic"}[r.Intn(3)]
			s = append(s, fmt.Sprintf("%s.%c%d%d", t, t[0], i, k))
		}
	}
	// commas / empty strings would change the tokenisation
	var out []string
	for _, x := range s {
		if x != "" {
			out = append(out, x)
		}
	}
	return strings.Join(out, ",")
}

// node token for node index i; variant controls what changed
func (g *gen) node(i int, alive bool) string {
	r := g.h.R
	id := nodeIDs[i]
	host := fmt.Sprintf("h%d", i)
	addr := fmt.Sprintf("a%d", i)
	switch r.Intn(6) {
	case 0:
		host = "" // GetAddress falls back to Address
		g.h.Count("node:host-empty")
	case 1:
		host = fmt.Sprintf("h%dx", i)
	}
	port := 7000 + i
	if r.Intn(5) == 0 {
		port = g.h.Pick(0, 1, 65535, -1, 7000+r.Intn(4), 2147483648, 4294967303, -2147483649)
		if port > 1<<31-1 || port < -(1<<31) {
			g.h.Count("node:port-beyond-int32")
		}
	}
	state := g.h.Pick(0, 1, 1, 1, 2, 3)
	a := 1
	if !alive {
		a = 0
	}
	return fmt.Sprintf("%s;%s;%s;%d;%d;%d;%s", id, host, addr, port, state, a, g.svcs(i, r.Intn(4) == 0))
}

func key(id string) string { return "/cell2/c/" + id }

// one event over the node universe; mism allows key/id mismatches (never written by cell2 itself)
func (g *gen) event(nn int, mism bool) string {
	r := g.h.R
	i := r.Intn(nn)
	k := key(nodeIDs[i])
	switch x := r.Intn(20); {
	case x < 8:
		j := i
		if mism && r.Intn(3) == 0 {
			j = r.Intn(nn)
			if j != i {
				g.h.Count("ev:put-key-id-mismatch")
			}
		}
		alive := r.Intn(7) != 0
		if !alive {
			g.h.Count("ev:put-dead")
		}
		if j == 0 {
			g.h.Count("ev:put-self")
		}
		g.h.Count("ev:put")
		return "P~" + k + "~" + g.node(j, alive)
	case x < 15:
		if i == 0 {
			g.h.Count("ev:del-self")
		}
		g.h.Count("ev:del")
		if mism && r.Intn(6) == 0 {
			g.h.Count("ev:del-odd-key")
			return "D~" + []string{nodeIDs[i], k + "/", "/", "//" + nodeIDs[i]}[r.Intn(4)]
		}
		return "D~" + k
	case x < 18:
		g.h.Count("ev:bad-json")
		return fmt.Sprintf("B~%s~%d", k, r.Intn(len(badValues)))
	default:
		g.h.Count("ev:unknown-type")
		return "X~" + k
	}
}

// cut splits a history into batches according to the bits of mask (bit i set = cut after event i)
func cut(evs []string, mask int) string {
	var sb strings.Builder
	sb.WriteString("watch")
	for i, e := range evs {
		sb.WriteString(" " + e)
		if i < len(evs)-1 && mask&(1<<uint(i)) != 0 {
			sb.WriteString(" |")
		}
	}
	return sb.String()
}

func (g *gen) reset() string {
	r := g.h.R
	host, port := "h0", 7000
	if r.Intn(10) == 0 {
		host, port = "nonhost", -1
		g.h.Count("reset:nonhost")
	}
	return fmt.Sprintf("reset name=c id=n0 host=%s port=%d state=%d svcs=%s", host, port, g.h.Pick(0, 1, 1, 1, 2), g.svcs(0, false))
}

func (g *gen) listing(nn int) string {
	r := g.h.R
	s := "list"
	for i := 0; i < nn; i++ {
		if r.Intn(2) == 0 {
			if i == 0 {
				g.h.Count("list:stale-self")
			}
			alive := r.Intn(10) != 0
			if !alive {
				g.h.Count("list:dead-node")
			}
			s += " " + g.node(i, alive)
			if r.Intn(8) == 0 {
				s += " " + g.node(i, true)
				g.h.Count("list:duplicate")
			}
		}
	}
	return s
}

// sysOp: the provider in front of the in-memory store: what the store holds, writes that fall between
// the listing and the creation of the watch, then writes / deliveries / watch failures / own state changes
func (g *gen) sysOp(nn int) string {
	r := g.h.R
	mode := "member"
	switch r.Intn(12) {
	case 0, 1:
		mode = "client"
		g.h.Count("sys:client")
	case 2:
		mode = "regfail"
		g.h.Count("sys:registration-refused")
	}
	op := "sys mode=" + mode
	for i := 0; i < nn; i++ {
		if r.Intn(2) == 0 {
			if i == 0 {
				g.h.Count("sys:stale-self-in-store")
			}
			alive := r.Intn(12) != 0
			if !alive {
				g.h.Count("sys:dead-in-store")
			}
			op += " " + g.node(i, alive)
		}
	}
	op += " |"
	wr := func() string {
		i := r.Intn(nn)
		if r.Intn(5) < 3 {
			return "P~" + key(nodeIDs[i]) + "~" + g.node(i, r.Intn(12) != 0)
		}
		return "D~" + key(nodeIDs[i])
	}
	lossy := false
	if r.Intn(3) == 0 {
		for k := 1 + r.Intn(2); k > 0; k-- {
			op += " G~" + wr()
		}
		g.h.Count("sys:write-between-listing-and-watch")
		lossy = true
	}
	n := 1 + r.Intn(7)
	for k := 0; k < n; k++ {
		switch x := r.Intn(12); {
		case x < 6:
			op += " W~" + wr()
		case x < 9:
			op += " V"
		case x < 10:
			op += " F"
			g.h.Count("sys:watch-failed")
			lossy = true
		default:
			op += fmt.Sprintf(" S~%d", r.Intn(4))
			g.h.Count("sys:state")
			if r.Intn(2) == 0 {
				op += " K"
				g.h.Count("sys:state-then-keepalive")
			}
		}
		if r.Intn(12) == 0 {
			op += " K"
		}
	}
	if r.Intn(4) != 0 {
		op += " V"
	}
	if !lossy {
		g.h.Count("sys:no-write-in-gap-no-failure")
	}
	return op
}

// selfCluster: the cluster-disabled start (own services from the node's config; entries without a
// config entry, with an empty type, with a dot in the name)
func (g *gen) selfCluster() string {
	r := g.h.R
	shorts := []string{"g1", "g2", "c1", "l1", "q", "a.b", "x"}
	typesOf := []string{"gate", "chat", "logic", "gate", ""}
	var svcs, cfg []string
	for _, n := range shorts {
		if r.Intn(2) == 0 {
			svcs = append(svcs, n)
			if r.Intn(5) != 0 {
				t := typesOf[r.Intn(len(typesOf))]
				cfg = append(cfg, n+":"+t)
				if t == "" {
					g.h.Count("selfcluster:empty-type")
				}
			} else {
				g.h.Count("selfcluster:no-config-entry")
			}
		} else if r.Intn(4) == 0 {
			cfg = append(cfg, n+":chat") // configured, not run locally
		}
	}
	host, port := "h0", 7000+r.Intn(3)
	if r.Intn(8) == 0 {
		host, port = "nonhost", -1
	}
	return fmt.Sprintf("selfcluster name=c id=n%d host=%s port=%d svcs=%s cfg=%s types=gate,chat,logic,zz names=g1,g2,c1,l1,q,x,b",
		r.Intn(3), host, port, strings.Join(svcs, ","), strings.Join(cfg, ","))
}

const dirOp = "dir types=gate,chat,logic,zz names=g1,g2,g9,c1,c2,l1,l2,g00,g01,g10,g11,g20,g30,c00,c10,c11,c20,c30,l00,l10,l21,l30,q"

// classify counts structural features of a batching (for the generator histogram)
func (g *gen) classify(op string) {
	for _, b := range strings.Split(strings.TrimPrefix(op, "watch"), "|") {
		toks := strings.Fields(b)
		if len(toks) == 0 {
			g.h.Count("batch:empty")
			continue
		}
		g.h.Count(fmt.Sprintf("batch:size%d", min(len(toks), 5)))
		put := map[string]bool{}
		seen := map[string]int{}
		for _, t := range toks {
			f := strings.Split(t, "~")
			if len(f) < 2 {
				continue
			}
			if f[0] == "P" {
				put[f[1]] = true
			}
			if f[0] == "D" && put[f[1]] {
				g.h.Count("batch:put-then-delete-same-key")
			}
			seen[f[0]+f[1]]++
			if seen[f[0]+f[1]] == 2 {
				g.h.Count("batch:duplicate-event")
			}
		}
	}
}

// emitCase: same reset + listing + history under one batching
func (g *gen) emitCase(w *world, pre []string, evs []string, mask int, extra []string) {
	for _, op := range pre {
		g.h.Emit(op, w.exec(op))
	}
	op := cut(evs, mask)
	g.classify(op)
	g.h.Emit(op, w.exec(op))
	for _, op := range extra {
		g.h.Emit(op, w.exec(op))
	}
}

func (g *gen) randomCases(n int) {
	r := g.h.R
	w := newWorld()
	defer w.endFold()
	for c := 0; c < n; c++ {
		nn := 3 + r.Intn(2)
		mism := r.Intn(10) == 0
		if mism {
			g.h.Count("case:key-id-mismatch-stream")
		}
		pre := []string{g.reset()}
		if r.Intn(15) != 0 {
			pre = append(pre, g.listing(nn))
		} else {
			g.h.Count("case:watch-before-listing")
		}
		if r.Intn(3) == 0 {
			pre = append(pre, dirOp)
		}
		if r.Intn(4) == 0 {
			// the whole StartMember sequence: listing, then a response right after the watch opened
			op := "start" + strings.TrimPrefix(g.listing(nn), "list") + " |"
			for k := r.Intn(4); k > 0; k-- {
				e := g.event(nn, false)
				if strings.HasPrefix(e, "X~") {
					continue
				}
				op += " " + e
			}
			g.h.Count("op:start-member")
			g.h.Emit(pre[0], w.exec(pre[0]))
			g.h.Emit(op, w.exec(op))
		}
		if r.Intn(12) == 0 {
			op := g.selfCluster()
			g.h.Count("op:selfcluster")
			g.h.Emit(op, w.exec(op))
		}
		if r.Intn(3) == 0 {
			op := g.sysOp(nn)
			g.h.Count("op:sys")
			g.h.Emit(pre[0], w.exec(pre[0]))
			g.h.Emit(op, w.exec(op))
		}
		ne := 1 + r.Intn(6)
		evs := make([]string, ne)
		for i := range evs {
			evs[i] = g.event(nn, mism)
		}
		if r.Intn(4) == 0 && ne >= 2 {
			// force the shapes the property names: new member put and deleted; duplicates
			i := 1 + r.Intn(nn-1)
			evs[0] = "P~" + key(nodeIDs[i]) + "~" + g.node(i, true)
			switch r.Intn(3) {
			case 0:
				evs[1] = "D~" + key(nodeIDs[i])
			case 1:
				evs[1] = evs[0]
			case 2:
				evs[1] = "P~" + key(nodeIDs[i]) + "~" + g.node(i, true)
			}
		}
		// several batchings of the same history: each is its own case
		nb := 1 + r.Intn(3)
		masks := []int{0, (1 << uint(ne)) - 1}
		for len(masks) < nb+2 {
			masks = append(masks, r.Intn(1<<uint(ne)))
		}
		for _, m := range masks[:nb+1] {
			extra := []string{dirOp}
			g.emitCase(w, pre, evs, m, extra)
		}
		// a longer life: state changes, empty and failed responses, further batches
		g.h.Emit(pre[0], w.exec(pre[0]))
		if len(pre) > 1 {
			g.h.Emit(pre[1], w.exec(pre[1]))
		}
		steps := 2 + r.Intn(5)
		for s := 0; s < steps; s++ {
			switch x := r.Intn(10); {
			case x < 2:
				op := fmt.Sprintf("state s=%d", r.Intn(4))
				g.h.Count("op:state")
				g.h.Emit(op, w.exec(op))
			case x < 3:
				op := "watch"
				if r.Intn(2) == 0 {
					op = "watch | |"
				}
				g.classify(op)
				g.h.Emit(op, w.exec(op))
			case x < 4:
				op := "watch " + g.event(nn, mism) + " | E | " + g.event(nn, mism)
				g.h.Count("batch:failed-response")
				g.h.Emit(op, w.exec(op))
			case x < 5:
				g.h.Emit(dirOp, w.exec(dirOp))
			default:
				k := 1 + r.Intn(4)
				es := make([]string, k)
				for i := range es {
					es[i] = g.event(nn, mism)
				}
				op := cut(es, r.Intn(1<<uint(k)))
				if r.Intn(6) == 0 {
					op += " |"
				}
				g.classify(op)
				g.h.Emit(op, w.exec(op))
			}
		}
		g.h.Emit(dirOp, w.exec(dirOp))
	}
}

// directory built from explicit ordered member lists (duplicate ids, duplicate and
// malformed names included)
func (g *gen) mkCases(n int) {
	r := g.h.R
	w := newWorld()
	op := g.reset()
	g.h.Emit(op, w.exec(op))
	for c := 0; c < n; c++ {
		k := r.Intn(5)
		op := "mk types=" + allTypes + " names=" + allNames + ",g00,g10,c11,l21"
		ids := map[string]bool{}
		for i := 0; i < k; i++ {
			j := r.Intn(4)
			if r.Intn(6) != 0 {
				// mostly distinct ids
				for t := 0; t < 4 && ids[nodeIDs[j]]; t++ {
					j = (j + 1) % 4
				}
			}
			if ids[nodeIDs[j]] {
				g.h.Count("mk:duplicate-member-id")
			}
			ids[nodeIDs[j]] = true
			host := fmt.Sprintf("h%d", j)
			if r.Intn(5) == 0 {
				host = fmt.Sprintf("h%dy", j)
			}
			op += fmt.Sprintf(" M~%s;%s;%d;%d;%s", nodeIDs[j], host, 7000+j+10*r.Intn(2), g.h.Pick(0, 1, 1, 2, 3), g.svcs(j, true))
		}
		g.h.Count(fmt.Sprintf("mk:members%d", k))
		g.h.Emit(op, w.exec(op))
		if r.Intn(4) == 0 {
			g.h.Emit(dirOp, w.exec(dirOp))
		}
	}
}

// the small alphabet of the exhaustive enumeration (self n0, peers n1 n2)
func exhAlphabet() []string {
	n1a := "c@n1;h1;a1;7001;1;1;gate.g1,chat.c1"
	n1b := "c@n1;h1;a1;7001;2;1;gate.g1"
	n1d := "c@n1;h1;a1;7001;1;0;gate.g1"
	n2a := "c@n2;h2;a2;7002;1;1;gate.g2"
	n0x := "c@n0;hx;ax;1;3;1;gate.zz"
	return []string{
		"P~" + key("c@n1") + "~" + n1a,
		"P~" + key("c@n1") + "~" + n1b,
		"P~" + key("c@n1") + "~" + n1d,
		"P~" + key("c@n2") + "~" + n2a,
		"P~" + key("c@n0") + "~" + n0x,
		"D~" + key("c@n1"),
		"D~" + key("c@n2"),
		"D~" + key("c@n0"),
		"D~" + key("c@n3"),
		"B~" + key("c@n1") + "~0",
	}
}

// every history of length <= maxLen over the alphabet, every batching, two listings
func (g *gen) exhaustive(maxLen int) {
	w := newWorld()
	defer w.endFold()
	al := exhAlphabet()
	reset := "reset name=c id=n0 host=h0 port=7000 state=1 svcs=gate.g0"
	lists := []string{"list", "list c@n1;h1;a1;7001;1;1;chat.c9 c@n2;h2;a2;7002;0;1;gate.g2"}
	dir := "dir types=gate,chat names=g0,g1,g2,c1,c9,zz"
	count := 0
	var rec func(evs []string)
	rec = func(evs []string) {
		if len(evs) > 0 {
			for _, l := range lists {
				for m := 0; m < 1<<uint(len(evs)-1); m++ {
					g.h.Emit(reset, w.exec(reset))
					g.h.Emit(l, w.exec(l))
					op := cut(evs, m)
					g.h.Emit(op, w.exec(op))
					if m == 0 {
						g.h.Emit(dir, w.exec(dir))
					}
					count++
				}
			}
		}
		if len(evs) == maxLen {
			return
		}
		for _, e := range al {
			rec(append(evs[:len(evs):len(evs)], e))
		}
	}
	rec(nil)
	g.h.Stats[fmt.Sprintf("exhaustive:histories-len<=%d-x-batchings-x-2-listings", maxLen)] = count
}

// every script of <= maxLen steps over a small alphabet (a peer registers / expires, in the gap or
// later; delivery; watch failure; own state change; keep-alive answer), against an empty store and
// a store that already holds the peer, as member; the short ones also as client
func (g *gen) sysExhaustive(maxLen int) {
	w := newWorld()
	n1 := "c@n1;h1;a1;7001;1;1;gate.g1"
	n1b := "c@n1;h1;a1;7001;2;1;gate.g1,chat.c1"
	al := []string{
		"G~P~" + key("c@n1") + "~" + n1,
		"G~D~" + key("c@n1"),
		"W~P~" + key("c@n1") + "~" + n1b,
		"W~D~" + key("c@n1"),
		"W~D~" + key("c@n0"),
		"V", "F", "S~2", "K",
	}
	reset := "reset name=c id=n0 host=h0 port=7000 state=1 svcs=gate.g0"
	count := 0
	var rec func(steps []string)
	rec = func(steps []string) {
		if len(steps) > 0 {
			for _, store := range []string{"", " " + n1} {
				modes := []string{"member"}
				if len(steps) <= 2 {
					modes = append(modes, "client", "regfail")
				}
				for _, mode := range modes {
					op := "sys mode=" + mode + store + " | " + strings.Join(steps, " ") + " V"
					g.h.Emit(reset, w.exec(reset)) // one case per script (short replays)
					g.h.Emit(op, w.exec(op))
					count++
				}
			}
		}
		if len(steps) == maxLen {
			return
		}
		for _, e := range al {
			if strings.HasPrefix(e, "G~") && len(steps) > 0 && !strings.HasPrefix(steps[len(steps)-1], "G~") {
				continue // writes of the gap come first
			}
			rec(append(steps[:len(steps):len(steps)], e))
		}
	}
	rec(nil)
	g.h.Stats[fmt.Sprintf("exhaustive:sys-scripts-len<=%d", maxLen)] = count
}

func silence() { logger.SetLogLevel(logrus.PanicLevel) }

func TestRun(t *testing.T) {
	curT = t
	silence()
	h := hx.Open()
	defer h.Close()
	if ops := hx.ReplayOps(); ops != nil {
		w := newWorld()
		for _, op := range ops {
			h.Emit(op, w.exec(op))
		}
		w.endFold()
		return
	}
	w := newWorld()
	for _, op := range hx.CorpusOps(hx.Env("VERIF_DIR", "/verif") + "/harness/corpus/C08") {
		h.Count("corpus")
		h.Emit(op, w.exec(op))
	}
	g := &gen{h: h}
	n := hx.EnvInt("VERIF_N", 600)
	g.exhaustive(hx.EnvInt("VERIF_EXH", 2))
	g.sysExhaustive(hx.EnvInt("VERIF_SYSEXH", 3))
	g.randomCases(n)
	g.mkCases(n)
	rs := "reset name=c id=n0 host=h0 port=7000 state=1 svcs=gate.g0"
	h.Emit(rs, w.exec(rs))
	op := fmt.Sprintf("stress n=%d", hx.EnvInt("VERIF_STRESS", 3000))
	h.Count("stress")
	h.Emit(op, w.exec(op))
	op = fmt.Sprintf("stress big=%d swaps=%d", hx.EnvInt("VERIF_STRESSBIG", 20000), hx.EnvInt("VERIF_STRESSSWAPS", 16))
	h.Count("stress-wide")
	h.Emit(op, w.exec(op))
	w.endFold()
	for k, v := range constructed {
		h.Stats[k] = v
	}
}

// TestExhaustive: all histories of <= VERIF_EXH events over the 10-event alphabet,
// every batching of each, against two initial listings (thorough tier).
func TestExhaustive(t *testing.T) {
	curT = t
	silence()
	h := hx.Open()
	defer h.Close()
	g := &gen{h: h}
	g.exhaustive(hx.EnvInt("VERIF_EXH", 4))
}
