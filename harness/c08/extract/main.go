// c08 facts extractor: reads node/app/clusterservices.go and node/app/cluster.go
// with go/ast and regenerates lean/Cell2v/Gen/C08Facts.lean — the field loads of
// every ClusterServices method (transitively through calls on the receiver), the
// field stores of ClusterServices.MakeMembers and their position relative to the
// call of the pure builder, the Cluster methods that delegate to the directory.
// The theorems of Props/C08 that depend on these facts are re-checked by the Lean
// kernel on every run.  Kept tiny on purpose: syntax only, no type checking.
//
// usage: go run ./c08/extract -repo /repo -out /verif/lean/Cell2v/Gen/C08Facts.lean
// Overlays named in VERIF_GO_FLAGS (-overlay=file.json) are honoured, so that a
// mutated copy of a source file is seen by the extractor as well.
package main

import (
	"encoding/json"
	"flag"
	"fmt"
	"go/ast"
	"go/parser"
	"go/token"
	"os"
	"path/filepath"
	"sort"
	"strings"
)

// fields: the fields of struct ClusterServices, read from its declaration (whatever they are called)
var fields = map[string]bool{}

// roleNames: the directory fields are reported under the ROLE of the builder result stored into them
// (`a, b, c, d := MakeMembers(..); s.x = a; ...`: x is "members", the field that gets b is "typeServices", ...),
// so that renaming an unexported field changes no generated fact
var roleNames = []string{"members", "typeServices", "workingServices", "services"}

// structFields: names and types (as source text of simple shapes) of the fields of `type <name> struct`
func structFields(files []*ast.File, name string) (names []string, ptrTo map[string]string) {
	ptrTo = map[string]string{}
	for _, f := range files {
		for _, d := range f.Decls {
			gd, ok := d.(*ast.GenDecl)
			if !ok {
				continue
			}
			for _, sp := range gd.Specs {
				ts, ok := sp.(*ast.TypeSpec)
				if !ok || ts.Name.Name != name {
					continue
				}
				st, ok := ts.Type.(*ast.StructType)
				if !ok {
					continue
				}
				for _, fl := range st.Fields.List {
					for _, n := range fl.Names {
						names = append(names, n.Name)
						if se, ok := fl.Type.(*ast.StarExpr); ok {
							if id, ok := se.X.(*ast.Ident); ok {
								ptrTo[n.Name] = id.Name
							}
						}
					}
				}
			}
		}
	}
	return
}

func overlayMap() map[string]string {
	m := map[string]string{}
	for _, f := range strings.Fields(os.Getenv("VERIF_GO_FLAGS")) {
		if !strings.HasPrefix(f, "-overlay=") {
			continue
		}
		b, err := os.ReadFile(strings.TrimPrefix(f, "-overlay="))
		if err != nil {
			continue
		}
		var o struct{ Replace map[string]string }
		if json.Unmarshal(b, &o) == nil {
			for k, v := range o.Replace {
				m[k] = v
			}
		}
	}
	return m
}

func recvOf(fd *ast.FuncDecl) (name, typ string) {
	if fd.Recv == nil || len(fd.Recv.List) == 0 {
		return "", ""
	}
	f := fd.Recv.List[0]
	if len(f.Names) > 0 {
		name = f.Names[0].Name
	}
	t := f.Type
	if s, ok := t.(*ast.StarExpr); ok {
		t = s.X
	}
	if id, ok := t.(*ast.Ident); ok {
		typ = id.Name
	}
	return
}

type method struct {
	loads  []string // direct loads of receiver fields, source order
	calls  []string // methods called on the receiver, source order
	stores []string // receiver fields assigned, source order
}

// scan collects loads / stores / receiver calls of one method body
func scan(fd *ast.FuncDecl, recv string) *method {
	m := &method{}
	stored := map[*ast.SelectorExpr]bool{}
	called := map[*ast.SelectorExpr]bool{}
	ast.Inspect(fd.Body, func(n ast.Node) bool {
		switch x := n.(type) {
		case *ast.AssignStmt:
			for _, l := range x.Lhs {
				if se, ok := l.(*ast.SelectorExpr); ok {
					if id, ok := se.X.(*ast.Ident); ok && id.Name == recv && fields[se.Sel.Name] {
						stored[se] = true
						m.stores = append(m.stores, se.Sel.Name)
					}
				}
			}
		case *ast.CallExpr:
			if se, ok := x.Fun.(*ast.SelectorExpr); ok {
				if id, ok := se.X.(*ast.Ident); ok && id.Name == recv {
					called[se] = true
					m.calls = append(m.calls, se.Sel.Name)
				}
			}
		}
		return true
	})
	ast.Inspect(fd.Body, func(n ast.Node) bool {
		if se, ok := n.(*ast.SelectorExpr); ok && !stored[se] && !called[se] {
			if id, ok := se.X.(*ast.Ident); ok && id.Name == recv && fields[se.Sel.Name] {
				m.loads = append(m.loads, se.Sel.Name)
			}
		}
		return true
	})
	return m
}

func leanList(xs []string) string {
	q := make([]string, len(xs))
	for i, x := range xs {
		q[i] = fmt.Sprintf("%q", x)
	}
	return "[" + strings.Join(q, ", ") + "]"
}

func mentions(n ast.Node, name string) bool {
	found := false
	ast.Inspect(n, func(n ast.Node) bool {
		if id, ok := n.(*ast.Ident); ok && id.Name == name {
			found = true
		}
		return true
	})
	return found
}

func main() {
	repo := flag.String("repo", "/repo", "")
	out := flag.String("out", "", "")
	flag.Parse()
	ov := overlayMap()
	parse := func(rel string) *ast.File {
		p := filepath.Join(*repo, rel)
		if r, ok := ov[p]; ok {
			p = r
		}
		f, err := parser.ParseFile(token.NewFileSet(), p, nil, 0)
		if err != nil {
			fmt.Fprintln(os.Stderr, err)
			os.Exit(1)
		}
		return f
	}
	// pkgFiles: the non-test .go files of a package directory as the build sees them — the files on disk plus
	// the files an overlay ADDS to the directory, minus the ones it deletes (replacement "")
	pkgFiles := func(relDir string) []string {
		dir := filepath.Join(*repo, relDir)
		set := map[string]bool{}
		on, _ := filepath.Glob(filepath.Join(dir, "*.go"))
		for _, fp := range on {
			set[fp] = true
		}
		for k, v := range ov {
			if filepath.Dir(k) == dir && strings.HasSuffix(k, ".go") {
				if v == "" {
					delete(set, k)
				} else {
					set[k] = true
				}
			}
		}
		var out []string
		for fp := range set {
			if !strings.HasSuffix(fp, "_test.go") {
				out = append(out, fp)
			}
		}
		sort.Strings(out)
		return out
	}
	cs := parse("node/app/clusterservices.go")
	cl := parse("node/app/cluster.go")
	var appFiles []*ast.File
	for _, fp := range pkgFiles("node/app") {
		rel, _ := filepath.Rel(*repo, fp)
		appFiles = append(appFiles, parse(rel))
	}
	csNames, _ := structFields(appFiles, "ClusterServices")
	for _, n := range csNames {
		fields[n] = true
	}
	// the Cluster's directory field: the field of struct Cluster of type *ClusterServices
	csField := "clusterServices"
	if names, ptrTo := structFields(appFiles, "Cluster"); len(names) > 0 {
		for _, n := range names {
			if ptrTo[n] == "ClusterServices" {
				csField = n
			}
		}
	}
	canon := map[string]string{} // field of ClusterServices -> role name

	methods := map[string]*method{}
	builderName := ""
	builderPure := false
	buildBeforeStores := false
	for _, d := range cs.Decls {
		fd, ok := d.(*ast.FuncDecl)
		if !ok || fd.Body == nil {
			continue
		}
		rn, rt := recvOf(fd)
		if rt == "ClusterServices" {
			methods[fd.Name.Name] = scan(fd, rn)
			if fd.Name.Name == "MakeMembers" {
				// the pure builder is called in the first statement; every field store comes later
				// and assigns a plain variable defined by that call
				callIdx, firstStore := -1, -1
				defined := map[string]bool{}
				position := map[string]int{}
				plain := true
				for i, st := range fd.Body.List {
					as, ok := st.(*ast.AssignStmt)
					if !ok {
						continue
					}
					if len(as.Rhs) == 1 {
						if c, ok := as.Rhs[0].(*ast.CallExpr); ok {
							if id, ok := c.Fun.(*ast.Ident); ok && callIdx < 0 && firstStore < 0 {
								callIdx = i
								builderName = id.Name
								for k, l := range as.Lhs {
									if id, ok := l.(*ast.Ident); ok {
										defined[id.Name] = true
										position[id.Name] = k
									}
								}
								continue
							}
						}
					}
					for j, l := range as.Lhs {
						if se, ok := l.(*ast.SelectorExpr); ok {
							if id, ok := se.X.(*ast.Ident); ok && id.Name == rn && fields[se.Sel.Name] {
								if firstStore < 0 {
									firstStore = i
								}
								if j >= len(as.Rhs) {
									plain = false
								} else if id, ok := as.Rhs[j].(*ast.Ident); !ok || !defined[id.Name] {
									plain = false
								} else if k := position[id.Name]; k < len(roleNames) {
									if _, dup := canon[se.Sel.Name]; !dup {
										canon[se.Sel.Name] = roleNames[k]
									}
								}
							}
						}
					}
				}
				buildBeforeStores = callIdx >= 0 && firstStore > callIdx && plain
			}
		}
	}
	// the pure builder = the package-level function whose results are stored; it and every
	// package-level function of the package reachable from it (whatever they are called, however
	// they are structured) must be unable to touch a directory object: no receiver, and no mention
	// of the type ClusterServices, of a clusterServices field or of the GetCluster accessor.
	plain := map[string]*ast.FuncDecl{}
	files := pkgFiles("node/app")
	for _, fp := range files {
		if strings.HasSuffix(fp, "_test.go") {
			continue
		}
		rel, _ := filepath.Rel(*repo, fp)
		for _, d := range parse(rel).Decls {
			if fd, ok := d.(*ast.FuncDecl); ok && fd.Body != nil && fd.Recv == nil {
				plain[fd.Name.Name] = fd
			}
		}
	}
	builderPure = false
	if fd, ok := plain[builderName]; ok && builderName != "" {
		builderPure = true
		seen := map[string]bool{}
		todo := []*ast.FuncDecl{fd}
		for len(todo) > 0 {
			f := todo[len(todo)-1]
			todo = todo[:len(todo)-1]
			if seen[f.Name.Name] {
				continue
			}
			seen[f.Name.Name] = true
			if mentions(f, "ClusterServices") || mentions(f, csField) || mentions(f, "GetCluster") {
				builderPure = false
			}
			ast.Inspect(f.Body, func(n ast.Node) bool {
				if c, ok := n.(*ast.CallExpr); ok {
					if id, ok := c.Fun.(*ast.Ident); ok {
						if g, ok := plain[id.Name]; ok {
							todo = append(todo, g)
						}
					}
				}
				return true
			})
		}
	}

	// transitive loads
	var total func(name string, depth int) []string
	total = func(name string, depth int) []string {
		m := methods[name]
		if m == nil || depth > 8 {
			return nil
		}
		r := append([]string{}, m.loads...)
		for _, c := range m.calls {
			r = append(r, total(c, depth+1)...)
		}
		return r
	}
	var totalStores func(name string, depth int) []string
	totalStores = func(name string, depth int) []string {
		m := methods[name]
		if m == nil || depth > 8 {
			return nil
		}
		r := append([]string{}, m.stores...)
		for _, c := range m.calls {
			r = append(r, totalStores(c, depth+1)...)
		}
		return r
	}
	roles := func(xs []string) []string {
		out := make([]string, len(xs))
		for i, x := range xs {
			if c, ok := canon[x]; ok {
				x = c
			}
			out[i] = x
		}
		return out
	}
	// only the exported methods are listed: unexported helper methods count through their callers
	var names []string
	for n := range methods {
		if ast.IsExported(n) {
			names = append(names, n)
		}
	}
	sort.Strings(names)

	// Cluster: methods that are a single `return c.clusterServices.M(...)`, stores to c.clusterServices
	type deleg struct{ name, to string }
	var delegs []deleg
	reassigned := []string{}
	for _, d := range cl.Decls {
		fd, ok := d.(*ast.FuncDecl)
		if !ok || fd.Body == nil {
			continue
		}
		rn, rt := recvOf(fd)
		ast.Inspect(fd.Body, func(n ast.Node) bool {
			if as, ok := n.(*ast.AssignStmt); ok {
				for _, l := range as.Lhs {
					if se, ok := l.(*ast.SelectorExpr); ok && se.Sel.Name == csField {
						reassigned = append(reassigned, fd.Name.Name)
					}
				}
			}
			return true
		})
		if rt != "Cluster" {
			continue
		}
		var calls []string
		ast.Inspect(fd.Body, func(n ast.Node) bool {
			if c, ok := n.(*ast.CallExpr); ok {
				if se, ok := c.Fun.(*ast.SelectorExpr); ok {
					if in, ok := se.X.(*ast.SelectorExpr); ok && in.Sel.Name == csField {
						if id, ok := in.X.(*ast.Ident); ok && id.Name == rn {
							calls = append(calls, se.Sel.Name)
						}
					}
				}
			}
			return true
		})
		for _, c := range calls {
			delegs = append(delegs, deleg{fd.Name.Name, c})
		}
	}
	sort.Slice(delegs, func(i, j int) bool {
		if delegs[i].name != delegs[j].name {
			return delegs[i].name < delegs[j].name
		}
		return delegs[i].to < delegs[j].to
	})

	// ---- helper queries of package app (GetServicePID, GetFirstWorkService, RandGetWorkService, defaultRoute, ...):
	// which directory getters (on `...GetCluster()`) each of them calls, transitively through package-level
	// functions of the package, in source order; a call inside a loop or a function literal is marked `*`
	// (it may run more than once).  Whatever the helpers are called and wherever in the package they live.
	getterSet := map[string]bool{"GetServiceList": true, "GetWorkServiceList": true, "GetWorkServices": true,
		"GetWorkServiceNames": true, "GetService": true, "GetMembers": true}
	type span struct{ lo, hi token.Pos }
	var hq func(fd *ast.FuncDecl, depth int) []string
	hq = func(fd *ast.FuncDecl, depth int) []string {
		if fd == nil || fd.Body == nil || depth > 8 {
			return nil
		}
		var loops []span
		ast.Inspect(fd.Body, func(n ast.Node) bool {
			switch x := n.(type) {
			case *ast.ForStmt:
				loops = append(loops, span{x.Body.Pos(), x.Body.End()})
			case *ast.RangeStmt:
				loops = append(loops, span{x.Body.Pos(), x.Body.End()})
			case *ast.FuncLit:
				loops = append(loops, span{x.Body.Pos(), x.Body.End()})
			}
			return true
		})
		inLoop := func(p token.Pos) bool {
			for _, l := range loops {
				if p >= l.lo && p < l.hi {
					return true
				}
			}
			return false
		}
		var out []string
		ast.Inspect(fd.Body, func(n ast.Node) bool {
			c, ok := n.(*ast.CallExpr)
			if !ok {
				return true
			}
			var got []string
			if se, ok := c.Fun.(*ast.SelectorExpr); ok && getterSet[se.Sel.Name] && mentions(se.X, "GetCluster") {
				got = []string{se.Sel.Name}
			} else if id, ok := c.Fun.(*ast.Ident); ok && plain[id.Name] != nil && plain[id.Name] != fd {
				got = hq(plain[id.Name], depth+1)
			}
			for _, g := range got {
				if inLoop(c.Pos()) && !strings.HasSuffix(g, "*") {
					g += "*"
				}
				out = append(out, g)
			}
			return true
		})
		return out
	}
	type helperQ struct {
		name string
		gs   []string
	}
	var helpers []helperQ
	for _, fp := range files {
		rel, _ := filepath.Rel(*repo, fp)
		for _, d := range parse(rel).Decls {
			fd, ok := d.(*ast.FuncDecl)
			if !ok || fd.Body == nil {
				continue
			}
			name := fd.Name.Name
			if fd.Recv != nil {
				_, rt := recvOf(fd)
				if rt == "Cluster" || rt == "ClusterServices" {
					continue
				}
				name = rt + "." + name
			}
			if gs := hq(fd, 0); len(gs) > 0 {
				helpers = append(helpers, helperQ{name, gs})
			}
		}
	}
	sort.Slice(helpers, func(i, j int) bool { return helpers[i].name < helpers[j].name })

	// ---- etcd provider: order of "publish" and "spawn a goroutine that can publish" in the start-up
	// functions, by flow (calls on the receiver are expanded in place, whatever the helpers are called)
	prov := map[string]*ast.FuncDecl{}
	pfiles := pkgFiles("node/cluster/clusterproviders/etcd")
	for _, fp := range pfiles {
		if strings.HasSuffix(fp, "_test.go") {
			continue
		}
		rel, _ := filepath.Rel(*repo, fp)
		for _, d := range parse(rel).Decls {
			if fd, ok := d.(*ast.FuncDecl); ok && fd.Body != nil {
				if _, rt := recvOf(fd); rt == "Provider" {
					prov[fd.Name.Name] = fd
				}
			}
		}
	}
	isPublish := func(c *ast.CallExpr) bool {
		se, ok := c.Fun.(*ast.SelectorExpr)
		return ok && se.Sel.Name == "UpdateClusterTopology"
	}
	recvCall := func(c *ast.CallExpr, recv string) string {
		if se, ok := c.Fun.(*ast.SelectorExpr); ok {
			if id, ok := se.X.(*ast.Ident); ok && id.Name == recv && prov[se.Sel.Name] != nil {
				return se.Sel.Name
			}
		}
		return ""
	}
	reachMemo := map[string]int{} // 1 = in progress / no, 2 = yes
	var canPublish func(n ast.Node, recv string) bool
	var reaches func(name string) bool
	reaches = func(name string) bool {
		if v, ok := reachMemo[name]; ok {
			return v == 2
		}
		reachMemo[name] = 1
		fd := prov[name]
		rn, _ := recvOf(fd)
		if canPublish(fd.Body, rn) {
			reachMemo[name] = 2
			return true
		}
		return false
	}
	canPublish = func(n ast.Node, recv string) bool {
		found := false
		ast.Inspect(n, func(n ast.Node) bool {
			if c, ok := n.(*ast.CallExpr); ok {
				if isPublish(c) {
					found = true
				} else if m := recvCall(c, recv); m != "" && reaches(m) {
					found = true
				}
			}
			return !found
		})
		return found
	}
	var flow func(name string, depth int) []string
	flow = func(name string, depth int) []string {
		fd := prov[name]
		if fd == nil || depth > 10 {
			return nil
		}
		rn, _ := recvOf(fd)
		var ev []string
		ast.Inspect(fd.Body, func(n ast.Node) bool {
			switch x := n.(type) {
			case *ast.GoStmt:
				if canPublish(x.Call, rn) {
					ev = append(ev, "spawn-publisher")
				}
				return false
			case *ast.FuncLit:
				return false // runs at an unknown time
			case *ast.CallExpr:
				if isPublish(x) {
					ev = append(ev, "publish")
				} else if m := recvCall(x, rn); m != "" {
					ev = append(ev, flow(m, depth+1)...)
				}
			}
			return true
		})
		return ev
	}

	var sb strings.Builder
	sb.WriteString("/-! GENERATED by harness/c08/extract from node/app/clusterservices.go and node/app/cluster.go — do not edit. -/\n")
	sb.WriteString("namespace Cell2v.Gen.C08\n\n")
	sb.WriteString("/-- (exported method of ClusterServices, receiver-field loads in source order, transitively through calls on the receiver) -/\n")
	sb.WriteString("def methodLoads : List (String × List String) := [\n")
	for i, n := range names {
		sep := ","
		if i == len(names)-1 {
			sep = ""
		}
		fmt.Fprintf(&sb, "  (%q, %s)%s\n", n, leanList(roles(total(n, 0))), sep)
	}
	sb.WriteString("]\n\n")
	sb.WriteString("/-- (exported method of ClusterServices, receiver fields it assigns, transitively, source order) -/\n")
	sb.WriteString("def methodStores : List (String × List String) := [\n")
	for i, n := range names {
		sep := ","
		if i == len(names)-1 {
			sep = ""
		}
		fmt.Fprintf(&sb, "  (%q, %s)%s\n", n, leanList(roles(totalStores(n, 0))), sep)
	}
	sb.WriteString("]\n\n")
	fmt.Fprintf(&sb, "/-- in `(*ClusterServices).MakeMembers` the pure builder is called before the first field store and every store assigns a variable that call defined -/\ndef buildBeforeStores : Bool := %v\n\n", buildBeforeStores)
	fmt.Fprintf(&sb, "/-- the function whose results `(*ClusterServices).MakeMembers` stores is a package-level function, and neither it nor any package-level function of package app reachable from it mentions `ClusterServices`, a `clusterServices` field or `GetCluster` (so it cannot read or write a directory object) -/\ndef builderPure : Bool := %v\n\n", builderPure)
	sb.WriteString("/-- (method of Cluster, method of its `clusterServices` it calls), one entry per call -/\n")
	sb.WriteString("def clusterDelegates : List (String × String) := [\n")
	for i, d := range delegs {
		sep := ","
		if i == len(delegs)-1 {
			sep = ""
		}
		fmt.Fprintf(&sb, "  (%q, %q)%s\n", d.name, d.to, sep)
	}
	sb.WriteString("]\n\n")
	sort.Strings(reassigned)
	fmt.Fprintf(&sb, "/-- functions of cluster.go that assign the `clusterServices` pointer -/\ndef clusterServicesAssignedIn : List String := %s\n\n", leanList(reassigned))
	sb.WriteString("/-- (start-up function of the etcd provider, its publications (`UpdateClusterTopology`) and the goroutines it starts that can publish, in execution order; calls on the receiver expanded in place) -/\n")
	sb.WriteString("def startFlow : List (String × List String) := [\n")
	fmt.Fprintf(&sb, "  (%q, %s),\n", "StartClient", leanList(flow("StartClient", 0)))
	fmt.Fprintf(&sb, "  (%q, %s)\n]\n\n", "StartMember", leanList(flow("StartMember", 0)))
	sb.WriteString("/-- (function of package app outside Cluster/ClusterServices, the directory getters it calls on `GetCluster()`, transitively through package-level functions, in source order; `*` = inside a loop or function literal) -/\n")
	sb.WriteString("def helperQueries : List (String × List String) := [\n")
	for i, h := range helpers {
		sep := ","
		if i == len(helpers)-1 {
			sep = ""
		}
		fmt.Fprintf(&sb, "  (%q, %s)%s\n", h.name, leanList(h.gs), sep)
	}
	sb.WriteString("]\n\n")
	sb.WriteString("end Cell2v.Gen.C08\n")

	if *out == "" {
		fmt.Print(sb.String())
		return
	}
	old, _ := os.ReadFile(*out)
	if string(old) == sb.String() {
		return
	}
	os.MkdirAll(filepath.Dir(*out), 0o755)
	if err := os.WriteFile(*out, []byte(sb.String()), 0o644); err != nil {
		fmt.Fprintln(os.Stderr, err)
		os.Exit(1)
	}
}
