package c08

// Construction and driving of the real etcd.Provider WITHOUT naming any unexported identifier of
// package etcd.
//
//   - construction: the exported etcd.NewWithConfig builds the provider (its real clientv3 client
//     dials lazily, nothing is sent; it is closed at once).  The harness then replaces the
//     provider's client by an in-memory one: the field is found by its TYPE (*clientv3.Client),
//     wherever it lives and whatever it is called.  The lease id (type clientv3.LeaseID) is preset
//     the same way so that registerService does not ask a lease server for one.
//   - the fold stream (ops reset / list / watch / state): `list` is what the in-memory KV returns
//     to StartMember's Get, `watch` is what the in-memory Watcher delivers to the provider's own
//     watch goroutine, the observations are what the provider publishes to cluster.ICluster.
//     The provider lives in a synctest bubble of its own for the duration of a case, so that
//     "deliver, wait until everything is parked, observe" is deterministic.

import (
	"context"
	"fmt"
	"reflect"
	"strings"
	"sync"
	"testing"
	"testing/synctest"
	"unsafe"

	"go.etcd.io/etcd/api/v3/mvccpb"
	clientv3 "go.etcd.io/etcd/client/v3"

	"cell2verif/hx"

	"github.com/dfklegend/cell2/node/app"
	"github.com/dfklegend/cell2/node/cluster/clusterproviders/etcd"
)

// ---------------------------------------------------------------- construction by type

var (
	clientPtrType = reflect.TypeOf((*clientv3.Client)(nil))
	leaseIDType   = reflect.TypeOf(clientv3.LeaseID(0))
)

// fieldsOfType: the (addressable) fields of struct v, nested structs included, whose type is t
func fieldsOfType(v reflect.Value, t reflect.Type, out *[]reflect.Value) {
	for i := 0; i < v.NumField(); i++ {
		f := v.Field(i)
		if f.Type() == t {
			*out = append(*out, f)
		} else if f.Kind() == reflect.Struct {
			fieldsOfType(f, t, out)
		}
	}
}

// writable lifts reflect's read-only flag of an unexported field
func writable(f reflect.Value) reflect.Value {
	return reflect.NewAt(f.Type(), unsafe.Pointer(f.UnsafeAddr())).Elem()
}

func theField(p *etcd.Provider, t reflect.Type, what string) reflect.Value {
	var fs []reflect.Value
	fieldsOfType(reflect.ValueOf(p).Elem(), t, &fs)
	if len(fs) != 1 {
		panic(fmt.Sprintf("C08 harness: expected exactly one field of type %v (%s) in etcd.Provider, found %d", t, what, len(fs)))
	}
	return writable(fs[0])
}

// installClient makes the provider talk to the given in-memory client
func installClient(p *etcd.Provider, c *clientv3.Client) {
	theField(p, clientPtrType, "the etcd client").Set(reflect.ValueOf(c))
}

// buildProvider: the exported constructor; its real client is closed right away (nothing was sent:
// clientv3.New without DialTimeout does not wait for a connection)
func buildProvider() *etcd.Provider {
	p, err := etcd.NewWithConfig("/cell2", clientv3.Config{Endpoints: []string{"127.0.0.1:1"}})
	if err != nil || p == nil {
		panic(fmt.Sprintf("C08 harness: etcd.NewWithConfig failed without a network: %v", err))
	}
	f := theField(p, clientPtrType, "the etcd client")
	if real, ok := f.Interface().(*clientv3.Client); ok && real != nil {
		real.Close()
	}
	f.Set(reflect.ValueOf(&clientv3.Client{}))
	return p
}

// A provider per case is needed (tens of thousands per run) and NewWithConfig costs ~1 ms (logger, gRPC
// channel).  So ONE provider is built by NewWithConfig and every further one is a copy of that never-started
// value with its (empty) maps and channels made afresh — all by kind, no names.  If the fresh value holds
// anything a shallow copy would share (a non-nil pointer other than the client, a slice, a func, an
// interface, a non-empty map) the copy is not used and every provider comes from NewWithConfig.
var tmpl struct {
	once    sync.Once
	p       *etcd.Provider
	cloneOK bool
}
var constructed = map[string]int{}

func cloneable(v reflect.Value) bool {
	switch v.Kind() {
	case reflect.Struct:
		for i := 0; i < v.NumField(); i++ {
			if !cloneable(v.Field(i)) {
				return false
			}
		}
		return true
	case reflect.Map:
		return v.IsNil() || v.Len() == 0
	case reflect.Chan:
		return v.IsNil() || v.Len() == 0
	case reflect.Ptr:
		return v.IsNil() || v.Type() == clientPtrType
	case reflect.Interface, reflect.Slice, reflect.Func, reflect.UnsafePointer:
		return v.IsNil()
	case reflect.Array:
		for i := 0; i < v.Len(); i++ {
			if !cloneable(v.Index(i)) {
				return false
			}
		}
		return true
	}
	return true
}

// refresh gives the copy its own maps and channels
func refresh(v reflect.Value) {
	switch v.Kind() {
	case reflect.Struct:
		for i := 0; i < v.NumField(); i++ {
			refresh(v.Field(i))
		}
	case reflect.Array:
		for i := 0; i < v.Len(); i++ {
			refresh(v.Index(i))
		}
	case reflect.Map:
		if !v.IsNil() {
			writable(v).Set(reflect.MakeMap(v.Type()))
		}
	case reflect.Chan:
		if !v.IsNil() {
			writable(v).Set(reflect.MakeChan(v.Type(), v.Cap()))
		}
	}
}

// newProvider: a never-started provider as NewWithConfig("/cell2", ...) returns it, with a lease id
// already granted (so that StartMember's registration does not ask a lease server).  Call it
// OUTSIDE a synctest bubble.
func newProvider() *etcd.Provider {
	tmpl.once.Do(func() {
		tmpl.p = buildProvider()
		tmpl.cloneOK = cloneable(reflect.ValueOf(tmpl.p).Elem())
	})
	var p *etcd.Provider
	if tmpl.cloneOK {
		p = new(etcd.Provider)
		reflect.ValueOf(p).Elem().Set(reflect.ValueOf(tmpl.p).Elem())
		refresh(reflect.ValueOf(p).Elem())
		constructed["provider:copy-of-NewWithConfig-value"]++
	} else {
		p = buildProvider()
		constructed["provider:NewWithConfig"]++
	}
	theField(p, leaseIDType, "the lease id").SetInt(77)
	return p
}

// ---------------------------------------------------------------- a bubble that lives as long as a case

// bubble runs closures inside one long-lived synctest bubble (the provider's goroutines belong to it)
type bubble struct {
	req  chan func()
	done chan struct{}
}

func newBubble() *bubble {
	b := &bubble{req: make(chan func()), done: make(chan struct{})}
	go func() {
		defer close(b.done)
		synctest.Test(curT, func(t *testing.T) {
			for f := range b.req {
				f()
			}
		})
	}()
	return b
}

// do runs f inside the bubble; a panic of f is re-raised in the caller (hx.Guard maps it to `panic`)
func (b *bubble) do(f func()) {
	var pv any
	fin := make(chan struct{})
	b.req <- func() {
		defer close(fin)
		defer func() { pv = recover() }()
		f()
	}
	<-fin
	if pv != nil {
		panic(pv)
	}
}

func (b *bubble) end() {
	close(b.req)
	<-b.done
}

// ---------------------------------------------------------------- the watch stand-in of the fold stream

// foldWatcher hands the provider's watch goroutine one stream per Watch call: the stream prepared by
// the current `watch` op if there is one, an idle (open, empty) stream otherwise.
type foldWatcher struct {
	clientv3.Watcher
	mu    sync.Mutex
	calls int
	next  chan clientv3.WatchResponse
	cur   *foldStream
}

type foldStream struct {
	ch   chan clientv3.WatchResponse
	once sync.Once
}

func (s *foldStream) close() { s.once.Do(func() { close(s.ch) }) }

func (w *foldWatcher) Watch(ctx context.Context, key string, opts ...clientv3.OpOption) clientv3.WatchChan {
	w.mu.Lock()
	defer w.mu.Unlock()
	w.calls++
	ch := w.next
	w.next = nil
	if ch == nil {
		ch = make(chan clientv3.WatchResponse)
	}
	s := &foldStream{ch: ch}
	w.cur = s
	context.AfterFunc(ctx, s.close) // Shutdown cancels the watch: the stream ends
	return ch
}

func (w *foldWatcher) state() (int, *foldStream) {
	w.mu.Lock()
	defer w.mu.Unlock()
	return w.calls, w.cur
}

// ---------------------------------------------------------------- the fold stream through the exported API

// foldRun: one started provider (StartMember on the injected listing, or StartClient on an empty store
// when the case delivers watch responses without a listing), parked on an idle watch stream between ops
type foldRun struct {
	b     *bubble
	p     *etcd.Provider
	wt    *foldWatcher
	lease *memLease
}

// foldStart starts the provider.  member: StartMember (init, Get = listing, store listing and self, publish,
// watch goroutine, register, keep-alive goroutine).  !member: StartClient on an empty store = the state "init
// done, nothing listed" (its publication of the empty listing is not recorded, the directory is not touched).
func foldStart(rc *recCluster, listing []*mvccpb.KeyValue, member bool) (*foldRun, error) {
	f := &foldRun{p: newProvider(), b: newBubble(), wt: &foldWatcher{}, lease: &memLease{}}
	var err error
	f.b.do(func() {
		installClient(f.p, &clientv3.Client{KV: &memKV{listing: listing}, Lease: f.lease, Watcher: f.wt})
		if member {
			err = f.p.StartMember(rc)
		} else {
			rc.mute = true
			err = f.p.StartClient(rc)
			rc.mute = false
		}
		synctest.Wait()
	})
	if err != nil {
		f.end(false)
		return nil, err
	}
	return f, nil
}

func (f *foldRun) end(started bool) {
	f.b.do(func() {
		if started {
			hx.Guard(func() string { f.p.Shutdown(true); return "" })
		}
		f.lease.closeAll()
		synctest.Wait()
	})
	f.b.end()
}

// watch delivers the responses as ONE stream that is completely queued when the provider's loop gets it
// (as a real watch channel with a backlog), waits until everything is parked and reports whether the loop
// left the stream on its own (`err`: it opened a new watch while the stream was still open) or consumed
// all of it (`ok`; the stream is closed then, the loop returns to an idle one).
func (f *foldRun) watch(resps []clientv3.WatchResponse) (ret string) {
	f.b.do(func() {
		ch := make(chan clientv3.WatchResponse, len(resps))
		for _, r := range resps {
			ch <- r
		}
		f.wt.mu.Lock()
		c0, idle := f.wt.calls, f.wt.cur
		f.wt.next = ch
		f.wt.mu.Unlock()
		if idle == nil {
			ret = "ret=nowatch"
			return
		}
		idle.close() // the loop's keepWatching returns nil and the loop opens the next watch
		synctest.Wait()
		c1, cur := f.wt.state()
		switch {
		case c1 == c0+1 && len(ch) == 0:
			ret = "ret=ok"
			cur.close()
			synctest.Wait()
		case c1 == c0+2:
			ret = "ret=err"
		default:
			ret = fmt.Sprintf("ret=?watches+%d,left%d", c1-c0, len(ch))
		}
	})
	return ret
}

// probeSelf: what `init` makes of the ICluster getters, seen through the exported path: StartMember on an
// empty store fails (init error) or publishes exactly the node itself.
var probeCache = map[string]string{}

func probeSelf(rc *recCluster) string {
	k := fmt.Sprintf("%q %q %q %d %q", rc.address, rc.name, rc.id, rc.state, strings.Join(rc.services, ","))
	if v, ok := probeCache[k]; ok {
		return v
	}
	c := &recCluster{address: rc.address, name: rc.name, id: rc.id, state: rc.state, services: rc.services, dir: app.NewCluster()}
	p := newProvider()
	obs := "panic"
	synctest.Test(curT, func(t *testing.T) {
		lease := &memLease{}
		installClient(p, &clientv3.Client{KV: &memKV{}, Lease: lease, Watcher: &foldWatcher{}})
		err := p.StartMember(c)
		synctest.Wait()
		switch {
		case err != nil:
			obs = "err"
		case len(c.last) == 1:
			obs = "self=" + showMember(c.last[0])
		default:
			obs = "self?" + showPub(c.last)
		}
		if err == nil {
			p.Shutdown(true)
		}
		lease.closeAll()
		synctest.Wait()
	})
	probeCache[k] = obs
	return obs
}
