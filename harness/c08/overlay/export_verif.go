package etcd

// White-box access for the C08 correspondence harness.  This file is NOT part
// of /repo: it is mapped into the package directory at build time with
// `go test -overlay` (see overlay.json next to it).  One-line accessors only;
// every behaviour that is observed comes from the package's own code.

import (
	"time"

	clientv3 "go.etcd.io/etcd/client/v3"

	"github.com/dfklegend/cell2/node/cluster"
)

// VerifNew builds a Provider exactly like NewWithConfig but without an etcd client.
func VerifNew() *Provider {
	return &Provider{
		baseKey:       "/cell2",
		members:       map[string]*Node{},
		cancelWatchCh: make(chan bool),
	}
}

// VerifInit is StartMember's first step (p.init).
func (p *Provider) VerifInit(c cluster.ICluster) error { return p.init(c) }

// VerifListing is StartMember's "initialize members" step on an injected fetch result.
func (p *Provider) VerifListing(nodes []*Node) {
	p.updateNodesWithSelf(nodes)
	p.publishClusterTopologyEvent()
}

// VerifWatch folds an injected watch stream with the package's own loop.
func (p *Provider) VerifWatch(stream clientv3.WatchChan) error { return p._keepWatching(stream) }

// VerifSelf returns the provider's own node (nil before init).
func (p *Provider) VerifSelf() *Node { return p.self }

// VerifNewWithClient builds a Provider like NewWithConfig around a given client value (the
// harness plugs in-memory KV/Lease/Watcher stand-ins into it), with a lease already granted,
// so that the exported StartMember / Shutdown can be run as they are.
func VerifNewWithClient(c *clientv3.Client) *Provider {
	return &Provider{
		client:        c,
		leaseID:       77,
		keepAliveTTL:  3 * time.Second,
		retryInterval: 1 * time.Second,
		baseKey:       "/cell2",
		members:       map[string]*Node{},
		cancelWatchCh: make(chan bool),
	}
}
