// The C13 method zoo: entry types whose methods cover the shapes the property
// quantifies over (parameter counts 1..5, context by value / interface /
// pointer not implementing IContext, message by value / interface / map /
// pointer-to-pointer, 4th parameter non-func / func of another signature /
// named func type, variadic, results, value vs pointer receivers, promoted
// methods, unexported methods and types, name collisions under a name
// function).  Every body funnels into `act`, which records the invocation and
// then plays the behaviour script chosen by the current op.
package c13

import (
	"encoding/hex"
	"encoding/json"
	"errors"
	"fmt"
	"reflect"

	"github.com/dfklegend/cell2/actorex/service"
	api "github.com/dfklegend/cell2/apimapper"
	"github.com/dfklegend/cell2/apimapper/apientry"
	"github.com/dfklegend/cell2/utils/serialize/proto/msgs"
)

type MsgA struct {
	Abc string `json:"abc"`
	N   int    `json:"n"`
}

type MsgB struct {
	X []int `json:"x"`
	Y *MsgA `json:"y,omitempty"`
}

// MsgBoom: a message type whose own decoding code panics (encoding/json calls UnmarshalJSON once the
// payload is syntactically valid JSON)
type MsgBoom struct{ A int }

func (m *MsgBoom) UnmarshalJSON([]byte) error { panic("MsgBoom.UnmarshalJSON panics") }

// panicSer: a user serializer (serialize.Serializer is an interface) whose Unmarshal panics
type panicSer struct{}

func (panicSer) Marshal(interface{}) ([]byte, error) { return nil, errors.New("unused") }
func (panicSer) Unmarshal([]byte, interface{}) error { panic("panicSer.Unmarshal panics") }
func (panicSer) GetName() string                     { return "panicser" }

// formaters of the harness's own (SetFormater takes any IAPIFormatter).
// permVal: the default predicate with ONE check relaxed: the message may also be a struct BY VALUE
type permVal struct{}

func (permVal) IsValidMethod(m reflect.Method) bool {
	mt := m.Type
	if m.PkgPath != "" {
		return false
	}
	n := mt.NumIn()
	if n != 3 && n != 4 {
		return false
	}
	if t1 := mt.In(1); t1.Kind() != reflect.Ptr || !t1.Implements(api.TypeOfContext) {
		return false
	}
	if k := mt.In(2).Kind(); k != reflect.Ptr && k != reflect.Struct {
		return false
	}
	return n == 3 || mt.In(3).Kind() == reflect.Func
}

// permAll: every exported method
type permAll struct{}

func (permAll) IsValidMethod(m reflect.Method) bool { return m.PkgPath == "" }

// contexts
type ZCtx struct{ tag int }

func (z *ZCtx) Reserve() {}
func (z *ZCtx) Handle()  {}

type ValCtx struct{}

func (ValCtx) Reserve() {}
func (ValCtx) Handle()  {}

type NoCtx struct{}

type MyCB func(error, interface{})

// PM: a NAMED pointer type. Kind()==Ptr, so the shape predicate admits it as a message
// parameter; *MsgA is assignable to PM and PM to *MsgA (identical underlying types, one side unnamed)
type PM *MsgA

type CB = apientry.HandlerCBFunc
type DC = api.DummyContext

// ---- recorder -------------------------------------------------------------

type recorder struct {
	ran   []string
	comps []string
	src   string // "f" = completion issued by framework code, "h" = by a zoo handler
	beh   string
	hc    string // "helper": the zoo handlers complete through apientry.CheckInvokeCBFunc (as every handler of the repository does), else they call the function themselves
	later []func()
}

var R = &recorder{src: "f"}

func (r *recorder) reset(beh string) {
	r.ran, r.comps, r.later, r.src, r.beh, r.hc = nil, nil, nil, "f", beh, ""
}

func hx16(s string) string { return hex.EncodeToString([]byte(s)) }

func digest(v interface{}) string {
	b, err := json.Marshal(v)
	if err != nil {
		return "78" // "x"
	}
	return hex.EncodeToString(b)
}

func ctxNil(ctx interface{}) string {
	switch c := ctx.(type) {
	case nil:
		return "nil"
	case *DC:
		if c == nil {
			return "nil"
		}
	case *ZCtx:
		if c == nil {
			return "nil"
		}
	case *ValCtx:
		if c == nil {
			return "nil"
		}
	case *service.RemoteContext:
		if c == nil {
			return "nil"
		}
	}
	return "set"
}

// behaviour scripts: what a handler does with its completion function.
// name -> (completions in order: true = value, false = error; panics afterwards)
type script struct {
	comps  []bool
	panics bool
	late   bool
	bad    bool // completes with a value the dispatcher cannot serialise
	rterr  bool // the panic is a runtime error (nil dereference) instead of panic("…")
}

var scripts = map[string]script{
	"ok":      {comps: []bool{true}},
	"err":     {comps: []bool{false}},
	"twice":   {comps: []bool{true, true}},
	"errok":   {comps: []bool{false, true}},
	"none":    {},
	"panic":   {panics: true},
	"nilpan":  {panics: true, rterr: true},
	"okpanic": {comps: []bool{true}, panics: true},
	"late":    {comps: []bool{true}, late: true},
	"badval":  {comps: []bool{true}, bad: true},
	// the variable `completed` of CallMethod (fix of D23): an ERROR completion counts as well; a completion the
	// completion function chokes on does not; the handler's own second completion is not the framework's business
	"errpanic":   {comps: []bool{false}, panics: true},
	"errbad":     {comps: []bool{false, true}, bad: true},
	"twicepanic": {comps: []bool{true, true}, panics: true},
	// completes AFTER the call returned, with the value a picky completion function (the dispatcher's closure) panics on:
	// there is no SafeCall above a late completion
	"latebad": {comps: []bool{true}, late: true, bad: true},
}

var behNames = []string{"ok", "err", "twice", "errok", "none", "panic", "nilpan", "okpanic", "late", "badval", "errpanic", "errbad", "twicepanic", "latebad"}

var okValue = func() interface{} { return &msgs.TestHello{I: 99, S: "r"} }

// act: body of every zoo handler
func act(id string, tag int, ctx interface{}, msg interface{}, cb CB) {
	R.ran = append(R.ran, fmt.Sprintf("%s@%d:%s:%s:ctx=%s", id, tag, hx16(fmt.Sprintf("%T", msg)), digest(msg), ctxNil(ctx)))
	sc := scripts[R.beh]
	complete := func(ok bool) {
		if cb == nil {
			return
		}
		prev := R.src
		R.src = "h"
		defer func() { R.src = prev }()
		// how the handler reports: through the repository's helper (nil test, then the call; a panic of the completion
		// function must come back out of it, CallMethod's `completed` logic relies on that) or by calling cb itself
		invoke := func(e error, v interface{}) {
			if R.hc == "helper" {
				apientry.CheckInvokeCBFunc(cb, e, v)
			} else {
				cb(e, v)
			}
		}
		if ok {
			if sc.bad {
				invoke(nil, &MsgA{Abc: "not a proto message"})
			} else {
				invoke(nil, okValue())
			}
		} else {
			invoke(errors.New("handler error"), nil)
		}
	}
	for _, c := range sc.comps {
		c := c
		if sc.late {
			R.later = append(R.later, func() { complete(c) })
		} else {
			complete(c)
		}
	}
	if sc.panics {
		if sc.rterr {
			var p *MsgA
			_ = p.Abc
		}
		panic("zoo handler panics")
	}
}

// ---- ZooA: the big one ----------------------------------------------------

type ZooA struct {
	api.APIEntry
	tag int
}

func (z *ZooA) Join(ctx *DC, m *MsgA, cb CB) { act("ZooA.Join", z.tag, ctx, m, cb) }
func (z *ZooA) Say(ctx *DC, m *MsgA)         { act("ZooA.Say", z.tag, ctx, m, nil) }
func (z *ZooA) Plain(ctx *DC, m *MsgB, cb func(error, interface{})) {
	act("ZooA.Plain", z.tag, ctx, m, cb)
}
func (z *ZooA) WithRet(ctx *DC, m *MsgA, cb CB) error {
	act("ZooA.WithRet", z.tag, ctx, m, cb)
	return errors.New("ignored")
}
func (z *ZooA) NotifyRet(ctx *DC, m *MsgB) (int, error) {
	act("ZooA.NotifyRet", z.tag, ctx, m, nil)
	return 1, nil
}
func (z *ZooA) OwnCtx(ctx *ZCtx, m *MsgA, cb CB)          { act("ZooA.OwnCtx", z.tag, ctx, m, cb) }
func (z *ZooA) ValCtxPtr(ctx *ValCtx, m *MsgA, cb CB)     { act("ZooA.ValCtxPtr", z.tag, ctx, m, cb) }
func (z *ZooA) CtxByValue(ctx ValCtx, m *MsgA, cb CB)     { act("ZooA.CtxByValue", z.tag, ctx, m, cb) }
func (z *ZooA) CtxIface(ctx api.IContext, m *MsgA, cb CB) { act("ZooA.CtxIface", z.tag, ctx, m, cb) }
func (z *ZooA) CtxNoImpl(ctx *NoCtx, m *MsgA, cb CB)      { act("ZooA.CtxNoImpl", z.tag, ctx, m, cb) }
func (z *ZooA) CtxPtrPtr(ctx **ZCtx, m *MsgA)             { act("ZooA.CtxPtrPtr", z.tag, ctx, m, nil) }
func (z *ZooA) MsgByValue(ctx *DC, m MsgA, cb CB)         { act("ZooA.MsgByValue", z.tag, ctx, m, cb) }
func (z *ZooA) NoteByValue(ctx *DC, m MsgA)               { act("ZooA.NoteByValue", z.tag, ctx, m, nil) }
func (z *ZooA) MsgIface(ctx *DC, m interface{}, cb CB)    { act("ZooA.MsgIface", z.tag, ctx, m, cb) }
func (z *ZooA) MsgMap(ctx *DC, m map[string]int)          { act("ZooA.MsgMap", z.tag, ctx, m, nil) }
func (z *ZooA) MsgSlice(ctx *DC, m []byte, cb CB)         { act("ZooA.MsgSlice", z.tag, ctx, m, cb) }
func (z *ZooA) MsgIntPtr(ctx *DC, m *int, cb CB)          { act("ZooA.MsgIntPtr", z.tag, ctx, m, cb) }
func (z *ZooA) MsgPtrPtr(ctx *DC, m **MsgA, cb CB)        { act("ZooA.MsgPtrPtr", z.tag, ctx, m, cb) }
func (z *ZooA) CbInt(ctx *DC, m *MsgA, cb int)            { act("ZooA.CbInt", z.tag, ctx, m, nil) }
func (z *ZooA) CbIface(ctx *DC, m *MsgA, cb interface{})  { act("ZooA.CbIface", z.tag, ctx, m, nil) }
func (z *ZooA) CbChan(ctx *DC, m *MsgA, cb chan error)    { act("ZooA.CbChan", z.tag, ctx, m, nil) }
func (z *ZooA) CbFuncInt(ctx *DC, m *MsgA, cb func(int))  { act("ZooA.CbFuncInt", z.tag, ctx, m, nil) }
func (z *ZooA) CbFuncNone(ctx *DC, m *MsgA, cb func())    { act("ZooA.CbFuncNone", z.tag, ctx, m, nil) }
func (z *ZooA) CbNamed(ctx *DC, m *MsgA, cb MyCB)         { act("ZooA.CbNamed", z.tag, ctx, m, CB(cb)) }
func (z *ZooA) CbRetBool(ctx *DC, m *MsgA, cb func(error, interface{}) bool) {
	act("ZooA.CbRetBool", z.tag, ctx, m, nil)
}
func (z *ZooA) NamedPtr(ctx *DC, m PM, cb CB)           { act("ZooA.NamedPtr", z.tag, ctx, m, cb) }
func (z *ZooA) NamedPtrNote(ctx *DC, m PM)              { act("ZooA.NamedPtrNote", z.tag, ctx, m, nil) }
func (z *ZooA) Boom(ctx *DC, m *MsgBoom, cb CB)         { act("ZooA.Boom", z.tag, ctx, m, cb) }
func (z *ZooA) BoomNote(ctx *DC, m *MsgBoom)            { act("ZooA.BoomNote", z.tag, ctx, m, nil) }
func (z *ZooA) Zero()                                   { act("ZooA.Zero", z.tag, nil, nil, nil) }
func (z *ZooA) OnlyCtx(ctx *DC)                         { act("ZooA.OnlyCtx", z.tag, ctx, nil, nil) }
func (z *ZooA) Five(ctx *DC, m *MsgA, cb CB, extra int) { act("ZooA.Five", z.tag, ctx, m, cb) }
func (z *ZooA) VarMsgs(ctx *DC, ms ...*MsgA)            { act("ZooA.VarMsgs", z.tag, ctx, ms, nil) }
func (z *ZooA) VarCbs(ctx *DC, m *MsgA, cbs ...CB)      { act("ZooA.VarCbs", z.tag, ctx, m, nil) }
func (z *ZooA) VarExtra(ctx *DC, m *MsgA, cb CB, more ...int) {
	act("ZooA.VarExtra", z.tag, ctx, m, cb)
}
func (z *ZooA) hidden(ctx *DC, m *MsgA, cb CB)          { act("ZooA.hidden", z.tag, ctx, m, cb) }
func (z *ZooA) Proto(ctx *DC, m *msgs.TestHello, cb CB) { act("ZooA.Proto", z.tag, ctx, m, cb) }
func (z *ZooA) ProtoNote(ctx *DC, m *msgs.TestHello)    { act("ZooA.ProtoNote", z.tag, ctx, m, nil) }
func (z *ZooA) Remote(ctx *service.RemoteContext, m *msgs.TestHello, cb CB) {
	act("ZooA.Remote", z.tag, ctx, m, cb)
}

// ---- ZooV: value and pointer receivers ------------------------------------

type ZooV struct{ Tag int }

func (ZooV) Desc() string                       { return "ZooV" }
func (z ZooV) ValJoin(ctx *DC, m *MsgA, cb CB)  { act("ZooV.ValJoin", z.Tag, ctx, m, cb) }
func (z ZooV) ValSay(ctx *DC, m *MsgA)          { act("ZooV.ValSay", z.Tag, ctx, m, nil) }
func (z *ZooV) PtrJoin(ctx *DC, m *MsgA, cb CB) { act("ZooV.PtrJoin", z.Tag, ctx, m, cb) }
func (z *ZooV) PtrSay(ctx *DC, m *MsgB)         { act("ZooV.PtrSay", z.Tag, ctx, m, nil) }
func (z *ZooV) ptrHidden(ctx *DC, m *MsgB)      { act("ZooV.ptrHidden", z.Tag, ctx, m, nil) }

// ---- ZooDup: keys that collide once a name function is applied -------------

type ZooDup struct {
	api.APIEntry
	tag int
}

func (z *ZooDup) Dup(ctx *DC, m *MsgA, cb CB)  { act("ZooDup.Dup", z.tag, ctx, m, cb) }
func (z *ZooDup) DUP(ctx *DC, m *MsgB)         { act("ZooDup.DUP", z.tag, ctx, m, nil) }
func (z *ZooDup) DUp()                         { act("ZooDup.DUp", z.tag, nil, nil, nil) }
func (z *ZooDup) DuP(ctx *NoCtx, m *MsgA)      { act("ZooDup.DuP", z.tag, ctx, m, nil) }
func (z *ZooDup) Echo(ctx *DC, m *MsgA, cb CB) { act("ZooDup.Echo", z.tag, ctx, m, cb) }
func (z *ZooDup) ECHO(ctx *DC, m *MsgB, cb CB) { act("ZooDup.ECHO", z.tag, ctx, m, cb) }
func (z *ZooDup) ECho(ctx *DC, m MsgB, cb CB)  { act("ZooDup.ECho", z.tag, ctx, m, cb) }

// ---- ZooP: behind the service dispatcher (RemoteContext, protobuf) --------

type ZooP struct {
	api.APIEntry
	tag int
}

func (z *ZooP) Hello(ctx *service.RemoteContext, m *msgs.TestHello, cb CB) {
	act("ZooP.Hello", z.tag, ctx, m, cb)
}
func (z *ZooP) Note(ctx *service.RemoteContext, m *msgs.TestHello) {
	act("ZooP.Note", z.tag, ctx, m, nil)
}
func (z *ZooP) Wrong(ctx *DC, m *msgs.TestHello, cb CB) { act("ZooP.Wrong", z.tag, ctx, m, cb) }
func (z *ZooP) WrongNote(ctx *DC, m *msgs.TestHello)    { act("ZooP.WrongNote", z.tag, ctx, m, nil) }
func (z *ZooP) Json(ctx *service.RemoteContext, m *MsgA, cb CB) {
	act("ZooP.Json", z.tag, ctx, m, cb)
}
func (z *ZooP) BadCb(ctx *service.RemoteContext, m *msgs.TestHello, cb func(int)) {
	act("ZooP.BadCb", z.tag, ctx, m, nil)
}

// ---- entries that must be rejected as a whole ------------------------------

type ZooEmpty struct {
	api.APIEntry
	tag int
}

func (z *ZooEmpty) Zero()                         { act("ZooEmpty.Zero", z.tag, nil, nil, nil) }
func (z *ZooEmpty) Bad(ctx NoCtx, m *MsgA, cb CB) { act("ZooEmpty.Bad", z.tag, ctx, m, cb) }

type zooPriv struct {
	api.APIEntry
	tag int
}

func (z *zooPriv) Join(ctx *DC, m *MsgA, cb CB) { act("zooPriv.Join", z.tag, ctx, m, cb) }
func (z *zooPriv) Say(ctx *DC, m *MsgA)         { act("zooPriv.Say", z.tag, ctx, m, nil) }

// ZooEmbed exposes ZooV's pointer method set by promotion through an embedded pointer
type ZooEmbed struct {
	*ZooV
}
