// Concurrency stream for the registry (apimapper/registry/api_registry.go):
// N goroutines call Registry.AddCollection with the SAME, not yet existing name
// at the same time.  The interleaving is forced, not hoped for: the harness
// holds the registry's (embedded, exported) write lock while all of them enter
// AddCollection, waits until every one of them is parked on that lock (checked
// on the goroutine dump, so no timing assumption decides the outcome), then
// releases it.  All callers must get the same collection object and that object
// must be the one the registry hands out and builds; entries registered through
// any of the returned handles must be exposed after Registry.Build().
package c13

import (
	"fmt"
	"runtime"
	"strings"
	"sync"
	"time"

	"github.com/dfklegend/cell2/apimapper/apientry"
	"github.com/dfklegend/cell2/apimapper/registry"
)

var (
	raceCounter int
	raceCols    []*apientry.APICollection // collections of the current case, emptied at the next reset
)

// parkedInAddCollection counts goroutines that are blocked (not running/runnable) inside AddCollection
func parkedInAddCollection() int {
	buf := make([]byte, 1<<20)
	buf = buf[:runtime.Stack(buf, true)]
	n := 0
	for _, g := range strings.Split(string(buf), "\n\n") {
		if !strings.Contains(g, "(*APIRegistry).AddCollection") {
			continue
		}
		head := g
		if i := strings.IndexByte(g, '\n'); i >= 0 {
			head = g[:i]
		}
		if strings.Contains(head, "[sync.") || strings.Contains(head, "[semacquire") {
			n++
		}
	}
	return n
}

// raceAddCollection: the forced window.  Returns what each goroutine got.
func raceAddCollection(name string, n int) []*apientry.APICollection {
	reg := registry.Registry
	cols := make([]*apientry.APICollection, n)
	var wg sync.WaitGroup
	reg.Lock()
	for i := 0; i < n; i++ {
		wg.Add(1)
		go func(i int) {
			defer wg.Done()
			cols[i] = reg.AddCollection(name)
		}(i)
	}
	deadline := time.Now().Add(3 * time.Second)
	for parkedInAddCollection() < n && time.Now().Before(deadline) {
		runtime.Gosched()
		time.Sleep(50 * time.Microsecond)
	}
	reg.Unlock()
	wg.Wait()
	return cols
}

func resetRace() {
	for _, c := range raceCols {
		c.Entries = &apientry.APIEntries{}
		c.Containers = make(map[string]*apientry.APIContainer)
	}
	raceCols = nil
}

// execRace: "regrace col=<K> n=<N>": cols K..K+N-1 of the case become what the N goroutines got
func execRace(k, n int) string {
	if n < 1 || n > 8 {
		return "bad-op"
	}
	raceCounter++
	name := fmt.Sprintf("c13-race-%d", raceCounter)
	cols := raceAddCollection(name, n)
	distinct := map[*apientry.APICollection]bool{}
	for i, c := range cols {
		if c == nil {
			return "nil-collection"
		}
		distinct[c] = true
		cs.cols[k+i] = c
	}
	for c := range distinct {
		raceCols = append(raceCols, c)
	}
	held := registry.Registry.GetCollection(name)
	if held != nil && !distinct[held] {
		raceCols = append(raceCols, held)
	}
	return fmt.Sprintf("distinct=%d held=%d", len(distinct), b2i(held != nil && held == cols[0]))
}

func b2i(b bool) int {
	if b {
		return 1
	}
	return 0
}
