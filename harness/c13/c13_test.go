// C13 correspondence harness: drives the real apimapper (formater, container,
// collection, CallWithSerialize, registry) and the service APIDispatcher on a
// zoo of entry types, dumping each method's raw reflect facts as descriptor op
// lines so that the Lean model applies ITS predicate to them.
package c13

import (
	stdjson "encoding/json"
	"fmt"
	"io"
	"log"
	"os"
	"reflect"
	"sort"
	"strings"
	"testing"

	"cell2verif/hx"

	"github.com/asynkron/protoactor-go/actor"
	"github.com/sirupsen/logrus"
	gproto "google.golang.org/protobuf/proto"

	"github.com/dfklegend/cell2/actorex/service"
	"github.com/dfklegend/cell2/actorex/service/servicemsgs"
	api "github.com/dfklegend/cell2/apimapper"
	"github.com/dfklegend/cell2/apimapper/apientry"
	"github.com/dfklegend/cell2/apimapper/formater"
	"github.com/dfklegend/cell2/apimapper/registry"
	"github.com/dfklegend/cell2/utils/logger/proxy"
	"github.com/dfklegend/cell2/utils/serialize"
	sjson "github.com/dfklegend/cell2/utils/serialize/json"
	sproto "github.com/dfklegend/cell2/utils/serialize/proto"
	"github.com/dfklegend/cell2/utils/serialize/proto/msgs"
)

// ---- zoo table --------------------------------------------------------------

type hiddenDecl struct {
	name string
	typ  reflect.Type // method expression type: func(recv, ...)
	val  bool
}

type zooType struct {
	name      string
	bodyOwner string
	ptrOK     bool
	valOK     bool
	mk        func(eid int, ptr bool) api.IAPIEntry
	full      reflect.Type // type with the largest method set
	valT      reflect.Type // value type (its method set = value-receiver methods)
	hidden    []hiddenDecl
}

var zoo = []*zooType{
	{name: "ZooA", bodyOwner: "ZooA", ptrOK: true,
		mk:   func(eid int, ptr bool) api.IAPIEntry { return &ZooA{tag: eid} },
		full: reflect.TypeOf(&ZooA{}), valT: reflect.TypeOf(ZooA{}),
		hidden: []hiddenDecl{{"hidden", reflect.TypeOf((*ZooA).hidden), false}}},
	{name: "ZooV", bodyOwner: "ZooV", ptrOK: true, valOK: true,
		mk: func(eid int, ptr bool) api.IAPIEntry {
			if ptr {
				return &ZooV{Tag: eid}
			}
			return ZooV{Tag: eid}
		},
		full: reflect.TypeOf(&ZooV{}), valT: reflect.TypeOf(ZooV{}),
		hidden: []hiddenDecl{{"ptrHidden", reflect.TypeOf((*ZooV).ptrHidden), false}}},
	{name: "ZooDup", bodyOwner: "ZooDup", ptrOK: true,
		mk:   func(eid int, ptr bool) api.IAPIEntry { return &ZooDup{tag: eid} },
		full: reflect.TypeOf(&ZooDup{}), valT: reflect.TypeOf(ZooDup{})},
	{name: "ZooP", bodyOwner: "ZooP", ptrOK: true,
		mk:   func(eid int, ptr bool) api.IAPIEntry { return &ZooP{tag: eid} },
		full: reflect.TypeOf(&ZooP{}), valT: reflect.TypeOf(ZooP{})},
	{name: "ZooEmpty", bodyOwner: "ZooEmpty", ptrOK: true,
		mk:   func(eid int, ptr bool) api.IAPIEntry { return &ZooEmpty{tag: eid} },
		full: reflect.TypeOf(&ZooEmpty{}), valT: reflect.TypeOf(ZooEmpty{})},
	{name: "zooPriv", bodyOwner: "zooPriv", ptrOK: true,
		mk:   func(eid int, ptr bool) api.IAPIEntry { return &zooPriv{tag: eid} },
		full: reflect.TypeOf(&zooPriv{}), valT: reflect.TypeOf(zooPriv{})},
	{name: "ZooEmbed", bodyOwner: "ZooV", ptrOK: true, valOK: true,
		mk: func(eid int, ptr bool) api.IAPIEntry {
			if ptr {
				return &ZooEmbed{&ZooV{Tag: eid}}
			}
			return ZooEmbed{&ZooV{Tag: eid}}
		},
		full: reflect.TypeOf(&ZooEmbed{}), valT: reflect.TypeOf(ZooEmbed{})},
	{name: "anon", bodyOwner: "ZooV", ptrOK: true, valOK: true,
		mk: func(eid int, ptr bool) api.IAPIEntry {
			if ptr {
				return &struct{ *ZooV }{&ZooV{Tag: eid}}
			}
			return struct{ *ZooV }{&ZooV{Tag: eid}}
		},
		full: reflect.TypeOf(&struct{ *ZooV }{}), valT: reflect.TypeOf(struct{ *ZooV }{})},
}

func zooByName(n string) *zooType {
	for _, z := range zoo {
		if z.name == n {
			return z
		}
	}
	return nil
}

func tagOf(recv reflect.Value) int {
	switch e := recv.Interface().(type) {
	case *ZooA:
		return e.tag
	case *ZooV:
		return e.Tag
	case ZooV:
		return e.Tag
	case *ZooDup:
		return e.tag
	case *ZooP:
		return e.tag
	case *ZooEmpty:
		return e.tag
	case *zooPriv:
		return e.tag
	case *ZooEmbed:
		return e.ZooV.Tag
	case ZooEmbed:
		return e.ZooV.Tag
	case *struct{ *ZooV }:
		return e.ZooV.Tag
	case struct{ *ZooV }:
		return e.ZooV.Tag
	}
	return -1
}

func ownerOf(recv reflect.Value) string {
	n := reflect.Indirect(recv).Type().Name()
	if n == "" {
		n = "anon"
	}
	if z := zooByName(n); z != nil {
		return z.bodyOwner
	}
	return "?" + n
}

// ---- raw reflect facts -------------------------------------------------------

var cbType = reflect.TypeOf(apientry.HandlerCBFunc(nil))

func kindName(k reflect.Kind) string {
	switch k {
	case reflect.Ptr:
		return "ptr"
	case reflect.Struct:
		return "struct"
	case reflect.Func:
		return "func"
	case reflect.Interface:
		return "iface"
	case reflect.Slice:
		return "slice"
	case reflect.Map:
		return "map"
	case reflect.Chan:
		return "chan"
	case reflect.Array:
		return "array"
	}
	return "other"
}

// valuePool: the dynamic types of every context and message value the harness hands to a call
var valuePool = func() []reflect.Type {
	seen := map[reflect.Type]bool{}
	var out []reflect.Type
	add := func(v interface{}) {
		if v == nil {
			return
		}
		if t := reflect.TypeOf(v); !seen[t] {
			seen[t] = true
			out = append(out, t)
		}
	}
	for _, n := range ctxNames {
		add(mkCtx(n))
	}
	for _, n := range argNames {
		add(mkArg(n))
	}
	sort.Slice(out, func(i, j int) bool { return out[i].String() < out[j].String() })
	return out
}()

// paramFacts: kind / Implements(IContext) / HandlerCBFunc assignable / String() and, for pointer types
// (the only ones the predicate can admit as context or message), the OTHER types of the value pool
// that reflect says are assignable to it, and the type reflect.New(t.Elem()) has where that is not t
func paramFacts(t reflect.Type) string {
	s := fmt.Sprintf("%s/%d/%d/%s", kindName(t.Kind()), hx.B2i(t.Implements(api.TypeOfContext)), hx.B2i(cbType.AssignableTo(t)), hx16(t.String()))
	if t.Kind() != reflect.Ptr && t.Kind() != reflect.Struct {
		return s
	}
	var asg []string
	for _, p := range valuePool {
		if p != t && p.AssignableTo(t) {
			asg = append(asg, hx16(p.String()))
		}
	}
	nid, zero := "-", "-"
	if t.Kind() == reflect.Ptr {
		if nt := reflect.PtrTo(t.Elem()); nt != t {
			nid = hx16(nt.String())
		}
	} else {
		zero = digest(reflect.Zero(t).Interface()) // what a nil argument becomes (makeValueMaybeNil)
	}
	if len(asg) == 0 && nid == "-" && zero == "-" {
		return s
	}
	a := "-"
	if len(asg) > 0 {
		a = strings.Join(asg, ",")
	}
	return s + "/" + a + "/" + nid + "/" + zero
}

func methodFacts(m reflect.Method) string {
	var sb strings.Builder
	mt := m.Type
	fmt.Fprintf(&sb, "exp=%d nin=%d var=%d nout=%d", hx.B2i(m.PkgPath == ""), mt.NumIn(), hx.B2i(mt.IsVariadic()), mt.NumOut())
	for i := 0; i < mt.NumIn(); i++ {
		fmt.Fprintf(&sb, " i%d=%s", i, paramFacts(mt.In(i)))
	}
	return sb.String()
}

func isValid(m reflect.Method) string {
	return hx.Guard(func() string {
		return fmt.Sprintf("valid=%d", hx.B2i(formater.GetDefaultFormater().IsValidMethod(m)))
	})
}

// methLines: descriptor op lines of one zoo type (reflect order = sorted by name), hidden ones last
func methLines(z *zooType) []string {
	var out []string
	for i := 0; i < z.full.NumMethod(); i++ {
		m := z.full.Method(i)
		_, val := z.valT.MethodByName(m.Name)
		out = append(out, fmt.Sprintf("meth ty=%s name=%s id=%s.%s val=%d %s", z.name, m.Name, z.bodyOwner, m.Name, hx.B2i(val), methodFacts(m)))
	}
	for _, h := range z.hidden {
		m := reflect.Method{Name: h.name, PkgPath: "cell2verif/c13", Type: h.typ}
		out = append(out, fmt.Sprintf("meth ty=%s name=%s id=%s.%s val=%d %s", z.name, h.name, z.bodyOwner, h.name, hx.B2i(h.val), methodFacts(m)))
	}
	return out
}

func findMethod(z *zooType, name string) (reflect.Method, bool) {
	if m, ok := z.full.MethodByName(name); ok {
		return m, true
	}
	for _, h := range z.hidden {
		if h.name == name {
			return reflect.Method{Name: h.name, PkgPath: "cell2verif/c13", Type: h.typ}, true
		}
	}
	return reflect.Method{}, false
}

// ---- synthetic shapes (predicate-level differential) --------------------------

var shapePool = []reflect.Type{
	reflect.TypeOf(&ZooA{}), reflect.TypeOf(ZooV{}),
	reflect.TypeOf(&DC{}), reflect.TypeOf(DC{}), reflect.TypeOf(&ZCtx{}), reflect.TypeOf(ZCtx{}),
	reflect.TypeOf(&ValCtx{}), reflect.TypeOf(ValCtx{}), reflect.TypeOf(&NoCtx{}), reflect.TypeOf((**ZCtx)(nil)),
	reflect.TypeOf((*api.IContext)(nil)).Elem(), reflect.TypeOf((*api.IContext)(nil)), reflect.TypeOf(&service.RemoteContext{}),
	reflect.TypeOf(&MsgA{}), reflect.TypeOf(MsgA{}), reflect.TypeOf((**MsgA)(nil)), reflect.TypeOf(new(int)), reflect.TypeOf(0),
	reflect.TypeOf(""), reflect.TypeOf([]byte(nil)), reflect.TypeOf(map[string]int(nil)), reflect.TypeOf((*interface{})(nil)).Elem(),
	reflect.TypeOf(&msgs.TestHello{}), reflect.TypeOf([2]int{}), reflect.TypeOf(make(chan int)),
	cbType, reflect.TypeOf(func(error, interface{}) {}), reflect.TypeOf(MyCB(nil)), reflect.TypeOf(func(int) {}), reflect.TypeOf(func() {}),
	reflect.TypeOf(func(error, interface{}) bool { return false }), reflect.TypeOf([]apientry.HandlerCBFunc(nil)), reflect.TypeOf([]*MsgA(nil)),
	reflect.TypeOf(PM(nil)),
}

// shape op: "shape exp=<0|1> var=<0|1> ix=<i,j,k,...>"; the facts are appended by the generator
func shapeMethod(ws []string) (reflect.Method, bool) {
	v, _ := hx.KV(ws, "ix")
	var ins []reflect.Type
	if v != "" {
		for _, p := range strings.Split(v, ",") {
			var i int
			if _, err := fmt.Sscanf(p, "%d", &i); err != nil || i < 0 || i >= len(shapePool) {
				return reflect.Method{}, false
			}
			ins = append(ins, shapePool[i])
		}
	}
	variadic := hx.KVInt(ws, "var") == 1
	if variadic && (len(ins) == 0 || ins[len(ins)-1].Kind() != reflect.Slice) {
		return reflect.Method{}, false
	}
	m := reflect.Method{Name: "Synth", Type: reflect.FuncOf(ins, nil, variadic)}
	if hx.KVInt(ws, "exp") != 1 {
		m.PkgPath = "cell2verif/c13"
	}
	return m, true
}

// ---- state of one case ---------------------------------------------------------

type caseState struct {
	cols map[int]*apientry.APICollection
}

var cs = &caseState{cols: map[int]*apientry.APICollection{}}

var regNames = []string{"c13-r0", "c13-r1", "c13-r2", "c13-r3"}

func resetCase() {
	resetRace()
	cs = &caseState{cols: map[int]*apientry.APICollection{}}
	for _, n := range regNames {
		c := registry.Registry.AddCollection(n)
		c.Entries = &apientry.APIEntries{}
		c.Containers = make(map[string]*apientry.APIContainer)
		c.SetFormater(formater.GetDefaultFormater())
	}
}

func nameFunc(n string) func(string) string {
	switch n {
	case "lower":
		return strings.ToLower
	case "upper":
		return strings.ToUpper
	case "lcamel":
		return apientry.ToLowerCamelCase
	}
	return nil
}

func dumpCol(col *apientry.APICollection) string {
	var items []string
	for g, c := range col.Containers {
		if c.Name != g {
			items = append(items, "BADNAME:"+hx16(g)+":"+hx16(c.Name))
		}
		for mn, h := range c.Handlers {
			kind := "ntf"
			if h.IsRequest {
				kind = "req"
			}
			items = append(items, fmt.Sprintf("%s.%s=%s.%s@%d:%s:%s:%s", hx16(g), hx16(mn), ownerOf(c.Receiver), h.Method.Name, tagOf(c.Receiver),
				kind, hx16(h.ArgType.String()), hx16(h.ContextType.String())))
		}
	}
	sort.Strings(items)
	return fmt.Sprintf("n=%d %s", len(items), strings.Join(items, " "))
}

func mkCtx(n string) api.IContext {
	switch n {
	case "dummy":
		return &DC{}
	case "zctx":
		return &ZCtx{}
	case "valctx":
		return &ValCtx{}
	case "remote":
		return service.NewRemoteContext()
	}
	return nil
}

var ctxNames = []string{"nil", "dummy", "zctx", "valctx", "remote"}

func ctxTypeHex(n string) string {
	c := mkCtx(n)
	if c == nil {
		return "-"
	}
	return hx16(reflect.TypeOf(c).String())
}

func mkSer(n string) serialize.Serializer {
	switch n {
	case "json":
		return sjson.GetDefaultSerializer()
	case "proto":
		return sproto.GetDefaultSerializer()
	case "panicser":
		return panicSer{}
	}
	return nil
}

// direct arguments for Collection.Call
func mkArg(n string) interface{} {
	switch n {
	case "MsgA":
		return &MsgA{Abc: "direct", N: 1}
	case "MsgB":
		return &MsgB{X: []int{1, 2}}
	case "Hello":
		return &msgs.TestHello{I: 5, S: "d"}
	case "int":
		i := 7
		return &i
	case "ppA":
		p := &MsgA{Abc: "pp"}
		return &p
	case "valA":
		return MsgA{Abc: "byvalue"}
	case "str":
		return "a string"
	case "nilA":
		var p *MsgA
		return p
	case "pmA":
		return PM(&MsgA{Abc: "named", N: 3})
	}
	return nil
}

var argNames = []string{"nil", "MsgA", "MsgB", "Hello", "int", "ppA", "valA", "str", "nilA", "pmA"}

func class(e error, v interface{}) string {
	if e != nil {
		if v != nil {
			return "errval"
		}
		return "err"
	}
	return "ok"
}

func showRec(prefix string) string {
	ran, comps := "-", "-"
	if len(R.ran) > 0 {
		ran = strings.Join(R.ran, ",")
	}
	if len(R.comps) > 0 {
		comps = strings.Join(R.comps, ",")
	}
	return fmt.Sprintf("%sran=%s comps=%s", prefix, ran, comps)
}

func runLater() string {
	return hx.Guard(func() string {
		for _, f := range R.later {
			f()
		}
		return ""
	})
}

// recording actor context of the service the dispatcher answers through
type recCtx struct {
	actor.Context
	msg interface{}
}

func (c *recCtx) Message() interface{} { return c.msg }

// legacy receivers (reqReceiver.ReceiveRequest: the user code a request falls through to)
type silent struct{ seen *bool }

func (r *silent) ReceiveRequest(ctx actor.Context, request *servicemsgs.ServiceRequest, rawMsg interface{}) {
	*r.seen = true
}

type answering struct {
	svc  *service.Service
	seen *bool
}

func (r *answering) ReceiveRequest(ctx actor.Context, request *servicemsgs.ServiceRequest, rawMsg interface{}) {
	*r.seen = true
	prev := R.src
	R.src = "h"
	defer func() { R.src = prev }()
	r.svc.Response(request, service.CodeSucc, "", okValue())
}

func (c *recCtx) Send(pid *actor.PID, message interface{}) {
	if res, ok := message.(*servicemsgs.ServiceResponse); ok {
		cl := "ok"
		if res.ErrCode != 0 {
			cl = "err"
		}
		R.comps = append(R.comps, fmt.Sprintf("%s:%s#%d", R.src, cl, res.ReqId))
		return
	}
	R.comps = append(R.comps, R.src+":other")
}

// messages types a payload may be decoded into (pointer types seen at parameter 2 in the zoo)
var msgTypes = func() []reflect.Type {
	seen := map[string]bool{}
	var out []reflect.Type
	for _, z := range zoo {
		for i := 0; i < z.full.NumMethod(); i++ {
			mt := z.full.Method(i).Type
			if mt.NumIn() >= 3 && mt.In(2).Kind() == reflect.Ptr && !seen[mt.In(2).String()] {
				seen[mt.In(2).String()] = true
				out = append(out, mt.In(2))
			}
		}
	}
	sort.Slice(out, func(i, j int) bool { return out[i].String() < out[j].String() })
	return out
}()

// decodeHints: what the payload IS for each declared message type, decided by
// reference decoders called here directly — never through the serializers of
// utils/serialize, which are code under test:
//
//	json : the WHOLE byte string must be one JSON value (encoding/json.Valid) that
//	       encoding/json.Unmarshal stores into the type (leading/trailing white space is fine;
//	       a second document, an extra brace, a trailing comma or other trailing bytes are not)
//	proto: the type must be a proto.Message and google.golang.org/protobuf/proto.Unmarshal accepts the bytes
//
// The value is canonicalised by re-marshalling (digest).
func decodeHints(ser string, data []byte) string {
	if ser != "json" && ser != "proto" && ser != "panicser" {
		return ""
	}
	var sb strings.Builder
	for _, t := range msgTypes {
		if ser == "panicser" {
			fmt.Fprintf(&sb, " d:%s=panic", hx16(t.String()))
			continue
		}
		v := reflect.New(t.Elem()).Interface()
		r := hx.Guard(func() string {
			buf := append([]byte(nil), data...)
			if ser == "json" {
				if !stdjson.Valid(buf) {
					return "err"
				}
				if err := stdjson.Unmarshal(buf, v); err != nil {
					return "err"
				}
				return digest(v)
			}
			m, ok := v.(gproto.Message)
			if !ok {
				return "err"
			}
			if err := gproto.Unmarshal(buf, m); err != nil {
				return "err"
			}
			return digest(v)
		})
		fmt.Fprintf(&sb, " d:%s=%s", hx16(t.String()), r)
	}
	return sb.String()
}

// ---- op interpreter ------------------------------------------------------------

func exec(op string) string {
	ws := hx.Words(op)
	if len(ws) == 0 {
		return "bad-op"
	}
	col := func() *apientry.APICollection { return cs.cols[hx.KVInt(ws, "col")] }
	switch ws[0] {
	case "reset":
		resetCase()
		return "ok"
	case "shape":
		m, ok := shapeMethod(ws)
		if !ok {
			return "bad-op"
		}
		return isValid(m)
	case "meth":
		z := zooByName(kvs(ws, "ty"))
		if z == nil {
			return "bad-op"
		}
		m, ok := findMethod(z, kvs(ws, "name"))
		if !ok {
			return "bad-op"
		}
		return isValid(m)
	case "regrace":
		return hx.Guard(func() string { return execRace(hx.KVInt(ws, "col"), hx.KVInt(ws, "n")) })
	case "newcol":
		k := hx.KVInt(ws, "col")
		var c *apientry.APICollection
		if same, ok := hx.KV(ws, "same"); ok && same != "-" {
			c = cs.cols[hx.KVInt(ws, "same")]
			if c == nil {
				return "bad-op"
			}
		} else if hx.KVInt(ws, "reg") == 1 {
			c = registry.Registry.AddCollection(regNames[k%len(regNames)])
			if registry.Registry.GetCollection(regNames[k%len(regNames)]) != c {
				return "registry-lost-collection"
			}
		} else {
			c = apientry.NewCollection()
		}
		switch kvs(ws, "fmt") {
		case "nil":
			c.SetFormater(nil)
		case "permval":
			c.SetFormater(permVal{})
		case "permall":
			c.SetFormater(permAll{})
		}
		cs.cols[k] = c
		return "ok"
	case "entry":
		c := col()
		z := zooByName(kvs(ws, "ty"))
		if c == nil || z == nil {
			return "bad-op"
		}
		e := z.mk(hx.KVInt(ws, "eid"), hx.KVInt(ws, "ptr") == 1)
		switch hx.KVInt(ws, "nil") {
		case 1: // a typed nil pointer of the entry type
			e = reflect.Zero(z.full).Interface().(api.IAPIEntry)
		case 2: // a nil interface
			e = nil
		}
		var opts []apientry.Option
		for _, w := range ws { // options in the order given
			switch {
			case strings.HasPrefix(w, "group="):
				g := string(hx.KVHex(ws, "group"))
				switch kvs(ws, "gvia") {
				case "name":
					opts = append(opts, apientry.WithName(g))
				case "inner":
					opts = append(opts, apientry.WithInnerGroupName())
				case "none":
				default:
					opts = append(opts, apientry.WithGroupName(g))
				}
			case strings.HasPrefix(w, "nf="):
				if f := nameFunc(w[3:]); f != nil {
					opts = append(opts, apientry.WithNameFunc(f))
				}
			case strings.HasPrefix(w, "x="):
				switch w[2:] {
				case "ser":
					opts = append(opts, apientry.WithSerializer(sproto.GetDefaultSerializer()))
				case "ret":
					opts = append(opts, apientry.WithSerializeRet(true))
				case "sched":
					opts = append(opts, apientry.WithSchedulerName("s"))
				}
			}
		}
		c.Register(e, opts...)
		return "ok"
	case "build":
		c := col()
		if c == nil {
			return "bad-op"
		}
		return hx.Guard(func() string {
			if kvs(ws, "via") == "reg" {
				registry.Registry.Build()
			} else {
				c.Build()
			}
			return dumpCol(c)
		})
	case "has":
		c := col()
		if c == nil {
			return "bad-op"
		}
		route := string(hx.KVHex(ws, "route"))
		return hx.Guard(func() string {
			t := c.GetArgType(route)
			has := c.HasMethod(route)
			if has != (t != nil) {
				return "inconsistent"
			}
			if t == nil {
				return "0"
			}
			return "1 " + hx16(t.String())
		})
	case "csz", "call":
		c := col()
		if c == nil {
			return "bad-op"
		}
		route := string(hx.KVHex(ws, "route"))
		beh := kvs(ws, "beh")
		if _, ok := scripts[beh]; !ok {
			return "bad-op"
		}
		R.reset(beh)
		R.hc = kvs(ws, "hc")
		var cb apientry.HandlerCBFunc
		switch hx.KVInt(ws, "cb") {
		case 1:
			cb = func(e error, v interface{}) { R.comps = append(R.comps, R.src+":"+class(e, v)) }
		case 2:
			// a PICKY completion function of the caller's own: like the dispatcher's closure (which panics in Response on a
			// result it cannot serialise) it panics, before delivering anything, on the value the "bad" scripts complete with
			cb = func(e error, v interface{}) {
				if _, bad := v.(*MsgA); bad && e == nil {
					panic("picky completion function: a value it cannot take")
				}
				R.comps = append(R.comps, R.src+":"+class(e, v))
			}
		}
		ctx := mkCtx(kvs(ws, "ctx"))
		p := hx.Guard(func() string {
			if ws[0] == "csz" {
				apientry.CallWithSerialize(c, ctx, route, hx.KVHex(ws, "data"), cb, mkSer(kvs(ws, "ser")))
			} else {
				c.Call(ctx, route, mkArg(kvs(ws, "arg")), cb)
			}
			return ""
		})
		if p == "" {
			p = runLater()
		}
		if p != "" {
			p += " "
		}
		return showRec(p)
	case "disp":
		var cols []*apientry.APICollection
		if v := kvs(ws, "cols"); v != "" {
			for _, p := range strings.Split(v, ",") {
				var k int
				fmt.Sscanf(p, "%d", &k)
				cols = append(cols, cs.cols[k]) // a nil collection is skipped by AddCollection
			}
		}
		beh := kvs(ws, "beh")
		if _, ok := scripts[beh]; !ok {
			return "bad-op"
		}
		R.reset(beh)
		R.hc = kvs(ws, "hc")
		route := string(hx.KVHex(ws, "route"))
		svc := service.NewService()
		svc.Context = &recCtx{}
		req := &servicemsgs.ServiceRequest{Sender: actor.NewPID("verif", "peer"), ReqId: int32(hx.KVInt(ws, "reqid")), Route: route, Body: hx.KVHex(ws, "data")}
		if v, ok := hx.KV(ws, "snd"); ok && v == "0" {
			req.Sender = nil // ResponseEx drops every answer to a request without sender
		}
		if kvs(ws, "via") == "recv" {
			// through Service.Receive -> handleRequest: API dispatcher first, then the legacy receiver
			req.Type = string(gproto.MessageName(&msgs.TestHello{}))
			if kvs(ws, "body") == "bad" {
				// a message type the receiving process does not know: remote.Deserialize fails in the fall-through
				req.Type = "verif.NoSuchMessageType"
			}
			legacy := false
			switch kvs(ws, "legacy") {
			case "absent":
				svc.InitReqReceiver(nil)
			case "answers":
				svc.InitReqReceiver(&answering{svc: svc, seen: &legacy})
			default:
				svc.InitReqReceiver(&silent{seen: &legacy})
			}
			p := hx.Guard(func() string {
				if kvs(ws, "nodisp") != "1" {
					svc.SetAPIDispatcher(service.NewDispatcher(cols...))
				}
				svc.Receive(&recCtx{msg: req})
				return ""
			})
			if p == "" {
				p = runLater()
			}
			if p != "" {
				p += " "
			}
			return showRec(fmt.Sprintf("%slegacy=%d ", p, hx.B2i(legacy)))
		}
		ret := false
		p := hx.Guard(func() string {
			d := service.NewDispatcher(cols...)
			ret = d.Dispatch(nil, svc, route, req)
			return ""
		})
		if p == "" {
			p = runLater()
		}
		if p != "" {
			p += " "
		}
		return showRec(fmt.Sprintf("%sret=%d ", p, hx.B2i(ret)))
	}
	return "bad-op"
}

func kvs(ws []string, k string) string {
	v, _ := hx.KV(ws, k)
	return v
}

// ---- generator -----------------------------------------------------------------

type genEntry struct {
	z     *zooType
	ptr   bool
	group string
	nf    string
	col   int
	nilK  int // 1: typed nil pointer, 2: nil interface is registered instead of an entry
}

type gen struct {
	raceBase int  // first collection index bound by a regrace op in this case (-1: none)
	aimed    bool // the current op is meant to reach its handler: no random deviations
	h        *hx.T
	run      func(op string)
	entries  []genEntry
	colFmt   map[int]string // collections that got a formater of the harness's own
	ncols    int
	eid      int
}

var groupPool = []string{"hello", "Hello", "_", "a.b", "room", "ZooA", "zoov", ""}
var nfPool = []string{"none", "none", "lower", "upper", "lcamel"}

func applyNF(nf, s string) string {
	if f := nameFunc(nf); f != nil {
		return f(s)
	}
	return s
}

func (g *gen) pickZoo() *zooType {
	h := g.h
	switch n := h.R.Intn(22); {
	case n < 7:
		return zoo[0] // ZooA
	case n < 10:
		return zoo[1] // ZooV
	case n < 13:
		return zoo[2] // ZooDup
	case n < 18:
		return zoo[3] // ZooP
	default:
		return zoo[4+h.R.Intn(len(zoo)-4)]
	}
}

func (g *gen) caseSetup() {
	h := g.h
	g.run("reset")
	g.entries = nil
	g.colFmt = map[int]string{}
	g.ncols = 1 + h.R.Intn(2)
	if h.R.Intn(6) == 0 {
		g.ncols = 3
	}
	reg := h.R.Intn(4) == 0
	for k := 0; k < g.ncols; k++ {
		op := fmt.Sprintf("newcol col=%d reg=%d", k, hx.B2i(reg))
		if k > 0 && h.R.Intn(8) == 0 {
			op += fmt.Sprintf(" same=%d", h.R.Intn(k))
			h.Count("col.alias")
		} else if h.R.Intn(25) == 0 {
			op += " fmt=nil"
			h.Count("col.nilformater")
		} else if !reg && h.R.Intn(12) == 0 {
			// a formater of the harness's own: by-value message types are exposed (argType.Elem() panics outside
			// SafeCall), or every exported method (mt.In(1) panics in Build). Not for registry collections (see nil entries)
			f := []string{"permval", "permval", "permval", "permall"}[h.R.Intn(4)]
			op += " fmt=" + f
			g.colFmt[k] = f
			h.Count("col.formater-" + f)
		}
		if reg {
			h.Count("col.registry")
		}
		g.run(op)
	}
	ne := 1 + h.R.Intn(4)
	var planned []genEntry
	used := map[string]bool{}
	// registry race: 2-4 goroutines add the same fresh name inside the forced window; each handle gets an entry of its own
	g.raceBase = -1
	if raceCounter < hx.EnvInt("VERIF_RACES", 400) && h.R.Intn(5) == 0 {
		n := 2 + h.R.Intn(3)
		g.raceBase = g.ncols
		g.run(fmt.Sprintf("regrace col=%d n=%d", g.ncols, n))
		h.Count(fmt.Sprintf("race.goroutines%d", n))
		for i := 0; i < n; i++ {
			z := g.pickZoo()
			planned = append(planned, genEntry{z: z, ptr: z.ptrOK, group: fmt.Sprintf("race%d", i), nf: nfPool[h.R.Intn(len(nfPool))], col: g.ncols + i})
			if !used[z.name] {
				used[z.name] = true
				for _, l := range methLines(z) {
					g.run(l)
				}
			}
		}
		g.ncols += n
	}
	for i := 0; i < ne; i++ {
		z := g.pickZoo()
		ptr := z.ptrOK
		if z.valOK && (!z.ptrOK || h.R.Intn(2) == 0) {
			ptr = false
		}
		group := ""
		if h.R.Intn(2) == 0 {
			group = groupPool[h.R.Intn(len(groupPool))]
		}
		planned = append(planned, genEntry{z: z, ptr: ptr, group: group, nf: nfPool[h.R.Intn(len(nfPool))], col: h.R.Intn(g.ncols)})
		if !used[z.name] {
			used[z.name] = true
			for _, l := range methLines(z) {
				g.run(l)
			}
		}
		h.Count("entry." + z.name)
	}
	// a nil entry (programmer error at start-up): Build panics on it unless its configured group is already
	// defined. Only in collections built one by one (Registry.Build walks a map: which collections a
	// panicking Build leaves unbuilt would depend on the iteration order)
	if !reg && g.raceBase < 0 && h.R.Intn(8) == 0 {
		z := g.pickZoo()
		ne := genEntry{z: z, ptr: true, nf: nfPool[h.R.Intn(len(nfPool))], col: h.R.Intn(g.ncols), nilK: 1 + h.R.Intn(2)}
		if h.R.Intn(2) == 0 {
			// a group name no other entry uses (with a group that is already defined newService returns before
			// touching the receiver: proved in the model, but which of the two happens first is not observable
			// behaviour a rewrite has to keep, so it is not driven)
			ne.group = "nilgrp"
		}
		at := h.R.Intn(len(planned) + 1)
		planned = append(planned[:at], append([]genEntry{ne}, planned[at:]...)...)
		h.Count(fmt.Sprintf("entry.nil%d", ne.nilK))
	}
	late := h.R.Intn(5) == 0 // one entry is registered only after the first build
	for i, e := range planned {
		if late && i == len(planned)-1 && i > 0 {
			break
		}
		g.register(e)
	}
	g.buildAll(reg)
	if late && len(planned) > 1 {
		h.Count("entry.after-build")
		g.register(planned[len(planned)-1])
		// calls before the rebuild must not see it
		for i := 0; i < 3; i++ {
			g.run(g.hasOp())
		}
		g.buildAll(reg)
	}
}

func (g *gen) register(e genEntry) {
	h := g.h
	g.eid++
	ent := e.z.mk(g.eid, e.ptr)
	tname := reflect.Indirect(reflect.ValueOf(ent)).Type().Name()
	op := fmt.Sprintf("entry col=%d eid=%d ty=%s ptr=%d tname=%s", e.col, g.eid, e.z.name, hx.B2i(e.ptr), hx16(tname))
	if e.nilK != 0 {
		op = fmt.Sprintf("entry col=%d eid=%d ty=%s ptr=1 tname= nil=%d", e.col, g.eid, e.z.name, e.nilK)
	}
	gvia := "none"
	if e.group != "" || h.R.Intn(10) == 0 {
		gvia = []string{"group", "group", "name"}[h.R.Intn(3)]
		if e.group == "_" && h.R.Intn(2) == 0 {
			gvia = "inner"
		}
	}
	parts := []string{fmt.Sprintf("group=%s gvia=%s", hx16(e.group), gvia), "nf=" + e.nf}
	if h.R.Intn(2) == 0 {
		parts[0], parts[1] = parts[1], parts[0]
	}
	op += " " + parts[0] + " " + parts[1]
	if h.R.Intn(5) == 0 {
		op += " x=" + []string{"ser", "ret", "sched"}[h.R.Intn(3)]
	}
	h.Count("opt.nf." + e.nf)
	h.Count("opt.gvia." + gvia)
	g.run(op)
	if e.nilK == 0 {
		g.entries = append(g.entries, e)
	}
}

func (g *gen) buildAll(reg bool) {
	for k := 0; k < g.ncols; k++ {
		via := "col"
		if reg && g.h.R.Intn(2) == 0 {
			via = "reg"
		}
		if g.raceBase >= 0 && k >= g.raceBase {
			via = "reg" // handles obtained from the registry are built by the registry
		}
		g.run(fmt.Sprintf("build col=%d via=%s", k, via))
	}
}

func caseVariant(h *hx.T, s string) string {
	switch h.R.Intn(8) {
	case 0:
		return strings.ToLower(s)
	case 1:
		return strings.ToUpper(s)
	case 2:
		return apientry.ToLowerCamelCase(s)
	case 3:
		return strings.Title(strings.ToLower(s))
	}
	return s
}

// target of a call: the collection, the route and (when aimed at a real method) that method
type target struct {
	col   int
	route string
	m     *reflect.Method
}

func (g *gen) route() string { return g.target().route }

func (g *gen) target() target {
	g.aimed = g.h.R.Intn(10) < 6
	col := g.h.R.Intn(g.ncols)
	r, ecol, m := g.route0()
	if ecol >= 0 && (g.aimed || g.h.R.Intn(8) != 0) {
		col = ecol
	}
	return target{col, r, m}
}

// route0: mostly routes that exist for the registered entries, else the malformed stream
func (g *gen) route0() (string, int, *reflect.Method) {
	r, e, m := g.route1()
	return r, e, m
}

func (g *gen) route1() (string, int, *reflect.Method) {
	h := g.h
	if len(g.entries) == 0 || (!g.aimed && h.R.Intn(10) < 3) {
		return g.malformed(), -1, nil
	}
	e := g.entries[h.R.Intn(len(g.entries))]
	tn := e.z.name
	grp := e.group
	if grp == "" {
		grp = applyNF(e.nf, tn)
	}
	if !g.aimed && h.R.Intn(10) == 0 {
		grp = caseVariant(h, grp)
		h.Count("route.group-case-variant")
	}
	meth := e.z.full.Method(h.R.Intn(e.z.full.NumMethod()))
	if g.aimed || h.R.Intn(3) != 0 { // prefer a method the formater accepts
		for try := 0; try < 6 && !formater.GetDefaultFormater().IsValidMethod(meth); try++ {
			meth = e.z.full.Method(h.R.Intn(e.z.full.NumMethod()))
		}
	}
	if g.colFmt[e.col] == "permval" && h.R.Intn(3) == 0 { // a method only the relaxed formater exposes (message by value)
		for try := 0; try < 12; try++ {
			c := e.z.full.Method(h.R.Intn(e.z.full.NumMethod()))
			if (permVal{}).IsValidMethod(c) && !formater.GetDefaultFormater().IsValidMethod(c) {
				meth = c
				h.Count("route.by-value-message-method")
				break
			}
		}
	}
	m := meth.Name
	if !g.aimed && len(e.z.hidden) > 0 && h.R.Intn(20) == 0 {
		m = e.z.hidden[0].name
	}
	mn := applyNF(e.nf, m)
	if !g.aimed && h.R.Intn(10) == 0 {
		mn = caseVariant(h, m)
		h.Count("route.method-case-variant")
	}
	x := h.R.Intn(14)
	if g.aimed {
		x = 2
	}
	switch x {
	case 0:
		h.Count("route.one-segment")
		return mn, e.col, &meth
	case 1:
		h.Count("route.three-segments")
		return grp + "." + mn + "." + mn, e.col, &meth
	}
	if grp == "_" && h.R.Intn(2) == 0 {
		h.Count("route.inner-group-one-segment")
		return mn, e.col, &meth
	}
	h.Count("route.well-formed")
	return grp + "." + mn, e.col, &meth
}

func (g *gen) malformed() string {
	h := g.h
	{
		h.Count("route.malformed-stream")
		switch h.R.Intn(14) {
		case 0:
			return ""
		case 1:
			return "."
		case 2:
			return ".."
		case 3:
			return "a.b.c"
		case 4:
			return "hello."
		case 5:
			return ".Join"
		case 6:
			return "hello.Join.extra"
		case 7:
			return "nosuch.Join"
		case 8:
			return "Join"
		case 9:
			return " hello.Join"
		case 10:
			return "héllo.Jöin"
		case 11:
			return "_.Join"
		case 12:
			return string(h.Bytes(1 + h.R.Intn(8)))
		}
		n := h.R.Intn(5)
		segs := make([]string, n)
		for i := range segs {
			segs[i] = []string{"", "hello", "Join", "join", "_", "ZooA", "x"}[h.R.Intn(7)]
		}
		return strings.Join(segs, ".")
	}
	return ""
}

// payloadFor: a payload the serializer decodes into the given message type
func (g *gen) payloadFor(ser string, t reflect.Type) []byte {
	h := g.h
	if ser == "proto" {
		b, _ := sproto.GetDefaultSerializer().Marshal(&msgs.TestHello{I: int32(h.R.Intn(500)), S: "aimed"})
		return b
	}
	switch t.String() {
	case "*c13.MsgA", "**c13.MsgA", "c13.PM":
		return []byte(fmt.Sprintf(`{"abc":"a%d","n":%d}`, h.R.Intn(100), h.R.Intn(1000)))
	case "*c13.MsgB":
		return []byte(fmt.Sprintf(`{"x":[%d,2],"y":{"abc":"in"}}`, h.R.Intn(9)))
	case "*int":
		return []byte(fmt.Sprint(h.R.Intn(1000)))
	case "*c13.MsgBoom":
		return []byte(fmt.Sprintf(`{"A":%d}`, h.R.Intn(9)))
	case "*msgs.TestHello":
		return []byte(fmt.Sprintf(`{"I":%d,"S":"json hello"}`, h.R.Intn(50)))
	}
	return []byte(`{}`)
}

// trailingJunk: a valid JSON value followed by something: a second value, an extra
// brace, a trailing comma, other bytes (all undecodable: the whole payload must be
// ONE value) — or only white space (still decodable)
func (g *gen) trailingJunk(valid []byte) []byte {
	h := g.h
	out := append([]byte(nil), valid...)
	switch h.R.Intn(9) {
	case 0:
		h.Count("payload.json+extra-brace")
		return append(out, '}')
	case 1:
		h.Count("payload.json+trailing-comma")
		return append(out, ',')
	case 2:
		h.Count("payload.json+second-document")
		return append(out, valid...)
	case 3:
		h.Count("payload.json+second-document")
		return append(append(out, ' '), []byte(`{"abc":"second"}`)...)
	case 4:
		h.Count("payload.json+garbage")
		return append(out, []byte("garbage")...)
	case 5:
		h.Count("payload.json+nul")
		return append(out, 0)
	case 6:
		h.Count("payload.json+bracket")
		return append(out, ']')
	case 7:
		h.Count("payload.json+whitespace(ok)")
		return append(out, []byte(" \n\t\r ")...)
	}
	h.Count("payload.whitespace+json+whitespace(ok)")
	return append(append([]byte("\n  "), out...), ' ')
}

func (g *gen) payload(ser string) []byte {
	h := g.h
	pb := func(i int32, s string) []byte {
		b, _ := sproto.GetDefaultSerializer().Marshal(&msgs.TestHello{I: i, S: s})
		return b
	}
	n := h.R.Intn(20)
	if ser == "proto" && n < 10 {
		n = 14 + h.R.Intn(4)
	}
	switch n {
	case 0, 1, 2, 3:
		h.Count("payload.json-msga")
		return []byte(fmt.Sprintf(`{"abc":"v%d","n":%d}`, h.R.Intn(100), h.R.Intn(1000)))
	case 4, 5:
		h.Count("payload.json-msgb")
		return []byte(fmt.Sprintf(`{"x":[%d,2],"y":{"abc":"in"}}`, h.R.Intn(9)))
	case 6:
		return []byte(`{}`)
	case 7:
		return []byte(`null`)
	case 8:
		return []byte(fmt.Sprintf("%d", h.R.Intn(1000)))
	case 9:
		h.Count("payload.json-wrong-field-type")
		return []byte(`{"abc":5,"x":"no"}`)
	case 10:
		h.Count("payload.empty")
		return nil
	case 11:
		h.Count("payload.garbage")
		return []byte("ddd")
	case 12:
		h.Count("payload.json-truncated")
		return []byte(`{"abc":"v","n":`)
	case 13:
		return []byte(`{"I":4,"S":"json hello"}`)
	case 14, 15:
		h.Count("payload.proto-hello")
		return pb(int32(h.R.Intn(500)), "s")
	case 16:
		h.Count("payload.proto-truncated")
		b := pb(300, "some string")
		return b[:len(b)-1-h.R.Intn(3)]
	case 17:
		return pb(0, "")
	}
	h.Count("payload.random")
	return h.Bytes(h.R.Intn(12))
}

func (g *gen) beh() string {
	h := g.h
	if h.R.Intn(2) == 0 {
		return "ok"
	}
	return behNames[h.R.Intn(len(behNames))]
}

// hc: how the zoo handler completes - half of the calls through apientry.CheckInvokeCBFunc (the helper every handler of
// the repository completes through), else by calling the function it was handed itself
func (g *gen) hc() string {
	if g.h.R.Intn(2) == 0 {
		g.h.Count("handler-completes.through-helper")
		return " hc=helper"
	}
	g.h.Count("handler-completes.directly")
	return ""
}

func (g *gen) hasOp() string {
	t := g.target()
	return fmt.Sprintf("has col=%d route=%s", t.col, hx16(t.route))
}

// ctxFor: mostly the context type the aimed-at method declares
func (g *gen) ctxFor(t target) string {
	h := g.h
	if t.m != nil && t.m.Type.NumIn() >= 2 && (g.aimed && h.R.Intn(8) != 0 || h.R.Intn(4) != 0) {
		want := t.m.Type.In(1).String()
		for _, n := range ctxNames {
			if c := mkCtx(n); c != nil && reflect.TypeOf(c).String() == want {
				return n
			}
		}
	}
	if h.R.Intn(3) == 0 {
		return "nil"
	}
	return ctxNames[h.R.Intn(len(ctxNames))]
}

// cbFor: requests mostly carry a completion function; an aimed call of a notify-shaped method mostly does not
func (g *gen) cbFor(t target) int {
	h := g.h
	if g.aimed && t.m != nil && t.m.Type.NumIn() == 3 {
		return hx.B2i(h.R.Intn(5) == 0)
	}
	return hx.B2i(h.R.Intn(4) != 0)
}

// cbBeh: the completion function (0 none, 1 plain, 2 picky: 1 in 6 of those that carry one) and the handler script;
// a picky one mostly meets a script that completes with the value it chokes on
func (g *gen) cbBeh(t target) (int, string) {
	h := g.h
	cb := g.cbFor(t)
	beh := g.beh()
	if cb == 1 && h.R.Intn(6) == 0 {
		cb = 2
		if h.R.Intn(2) == 0 {
			beh = []string{"badval", "errbad"}[h.R.Intn(2)]
		}
	}
	return cb, beh
}

func (g *gen) cszOp() string {
	h := g.h
	t := g.target()
	ser := []string{"json", "json", "json", "proto", "nil"}[h.R.Intn(5)]
	if ser == "nil" && h.R.Intn(6) != 0 {
		ser = "json"
	}
	if t.m != nil && t.m.Type.NumIn() >= 3 && t.m.Type.In(2) == reflect.TypeOf(&msgs.TestHello{}) && h.R.Intn(4) != 0 {
		ser = "proto"
	}
	ctx := g.ctxFor(t)
	data := g.payload(ser)
	if g.aimed && t.m != nil && t.m.Type.NumIn() >= 3 {
		ser = "json"
		if t.m.Type.In(2) == reflect.TypeOf(&msgs.TestHello{}) && h.R.Intn(3) != 0 {
			ser = "proto"
		}
		data = g.payloadFor(ser, t.m.Type.In(2))
		if ser == "json" && h.R.Intn(6) == 0 {
			data = g.trailingJunk(data)
		}
	} else if ser == "json" && h.R.Intn(10) == 0 {
		data = g.trailingJunk([]byte(fmt.Sprintf(`{"abc":"j%d","n":%d}`, h.R.Intn(100), h.R.Intn(1000))))
	}
	if h.R.Intn(40) == 0 { // a user serializer whose Unmarshal panics (outside SafeCall)
		ser = "panicser"
	}
	cb, beh := g.cbBeh(t)
	h.Count("csz.ser." + ser)
	h.Count(fmt.Sprintf("csz.cb%d", cb))
	h.Count("ctx." + ctx)
	return fmt.Sprintf("csz col=%d route=%s ser=%s ctx=%s ctxt=%s cb=%d beh=%s%s data=%s%s", t.col, hx16(t.route), ser, ctx, ctxTypeHex(ctx),
		cb, beh, g.hc(), hx.Hex(data), decodeHints(ser, data))
}

func (g *gen) callOp() string {
	h := g.h
	t := g.target()
	ctx := g.ctxFor(t)
	an := argNames[h.R.Intn(len(argNames))]
	if t.m != nil && t.m.Type.NumIn() >= 3 && (g.aimed || h.R.Intn(3) != 0) {
		for _, n := range argNames {
			if a := mkArg(n); a != nil && reflect.TypeOf(a) == t.m.Type.In(2) {
				an = n
				break
			}
		}
	}
	// assignable but not identical: *MsgA where the named pointer type PM is declared, and the other way round
	if t.m != nil && t.m.Type.NumIn() >= 3 && h.R.Intn(4) == 0 {
		switch t.m.Type.In(2) {
		case reflect.TypeOf(PM(nil)):
			an = "MsgA"
			h.Count("call.arg.assignable-not-identical")
		case reflect.TypeOf(&MsgA{}):
			an = "pmA"
			h.Count("call.arg.assignable-not-identical")
		}
	}
	a := mkArg(an)
	argt, argv := "-", "-"
	if a != nil {
		argt, argv = hx16(reflect.TypeOf(a).String()), digest(a)
	}
	h.Count("call.arg." + an)
	cb, beh := g.cbBeh(t)
	h.Count(fmt.Sprintf("call.cb%d", cb))
	return fmt.Sprintf("call col=%d route=%s ctx=%s ctxt=%s cb=%d beh=%s%s arg=%s argt=%s argv=%s", t.col, hx16(t.route), ctx, ctxTypeHex(ctx),
		cb, beh, g.hc(), an, argt, argv)
}

func (g *gen) dispOp() string {
	h := g.h
	t := g.target()
	rc := reflect.TypeOf(&service.RemoteContext{})
	for try := 0; try < 8 && g.aimed && !(t.m != nil && t.m.Type.NumIn() >= 3 && t.m.Type.In(1) == rc && t.m.Type.In(2) == reflect.TypeOf(&msgs.TestHello{})); try++ {
		t = g.target()
		g.aimed = true
	}
	var cols []string
	for k := 0; k < g.ncols; k++ {
		if k == t.col || h.R.Intn(3) != 0 {
			cols = append(cols, fmt.Sprint(k))
		}
	}
	if h.R.Intn(3) == 0 && len(cols) > 1 {
		cols[0], cols[len(cols)-1] = cols[len(cols)-1], cols[0]
	}
	if h.R.Intn(30) == 0 {
		cols = nil
	}
	reqid := h.Pick(0, 1, 1, 7, 7, 2147483632)
	if g.aimed && t.m != nil && t.m.Type.NumIn() == 3 && h.R.Intn(5) != 0 {
		reqid = 0
	}
	beh := g.beh()
	if beh == "late" && h.R.Intn(2) == 0 {
		beh = "badval"
	}
	data := g.payload("proto")
	if g.aimed {
		data = g.payloadFor("proto", nil)
	}
	h.Count(fmt.Sprintf("disp.notify%d", hx.B2i(reqid == 0)))
	h.Count(fmt.Sprintf("disp.ncols%d", len(cols)))
	extra := ""
	if h.R.Intn(12) == 0 {
		extra += " snd=0"
		h.Count("disp.no-sender")
	}
	route := t.route
	if h.R.Intn(3) == 0 {
		// through Service.Receive/handleRequest; the body deserialises unless body=bad
		data = g.payloadFor("proto", nil)
		legacy := []string{"silent", "silent", "absent", "answers", "answers"}[h.R.Intn(5)]
		extra += " via=recv legacy=" + legacy
		h.Count("disp.via-receive.legacy-" + legacy)
		if h.R.Intn(10) == 0 {
			extra += " nodisp=1"
			h.Count("disp.via-receive.no-dispatcher")
		}
		if h.R.Intn(12) == 0 {
			route = ""
			h.Count("disp.via-receive.empty-route")
		}
		if h.R.Intn(8) == 0 {
			// the body cannot be deserialised by the receiving process (unknown type name): only the fall-through looks at it
			extra += " body=bad"
			h.Count("disp.via-receive.undeserialisable-body")
		}
	}
	return fmt.Sprintf("disp cols=%s route=%s reqid=%d beh=%s%s rc=%s%s data=%s%s", strings.Join(cols, ","), hx16(route), reqid, beh, g.hc(),
		hx16(reflect.TypeOf(service.NewRemoteContext()).String()), extra, hx.Hex(data), decodeHints("proto", data))
}

func (g *gen) shapeOp() string {
	h := g.h
	nin := h.Pick(0, 1, 2, 3, 3, 3, 4, 4, 4, 4, 5, 6)
	ix := make([]int, nin)
	for i := range ix {
		ix[i] = h.R.Intn(len(shapePool))
	}
	// bias towards almost-valid shapes: ctx at 1, message at 2, func at 3
	if nin >= 3 && h.R.Intn(3) != 0 {
		ix[0] = 0
		ix[1] = h.Pick(2, 2, 4, 6, 12, 3, 8, 10)
		ix[2] = h.Pick(13, 13, 15, 16, 22, 14, 21, 33)
		if nin >= 4 {
			ix[3] = h.Pick(25, 25, 26, 27, 28, 29, 30, 17, 21, 31)
		}
	}
	variadic := 0
	if nin > 0 && shapePool[ix[nin-1]].Kind() == reflect.Slice && h.R.Intn(2) == 0 {
		variadic = 1
	}
	exp := hx.B2i(h.R.Intn(8) != 0)
	strs := make([]string, nin)
	for i, x := range ix {
		strs[i] = fmt.Sprint(x)
	}
	op := fmt.Sprintf("shape exp=%d var=%d ix=%s", exp, variadic, strings.Join(strs, ","))
	m, _ := shapeMethod(hx.Words(op))
	return "shape ix=" + strings.Join(strs, ",") + " " + methodFacts(m)
}

// countObs: which outcome classes the generator reached
func countObs(h *hx.T, op, obs string) {
	kind := op
	if i := strings.IndexByte(op, ' '); i > 0 {
		kind = op[:i]
	}
	switch kind {
	case "csz", "call", "disp":
		cb := strings.Contains(op, " cb=1") || strings.Contains(op, " cb=2") || (kind == "disp" && !strings.Contains(op, " reqid=0 "))
		ran := !strings.Contains(obs, "ran=-")
		switch {
		case strings.Contains(obs, "panic"):
			h.Count("reached." + kind + ".ESCAPING-PANIC")
		case ran && strings.Contains(obs, "comps=-"):
			h.Count(fmt.Sprintf("reached.%s.handler-ran.no-completion.cb%d", kind, hx.B2i(cb)))
		case ran && strings.Contains(obs, ",f:err"):
			h.Count("reached." + kind + ".handler-completed-then-FRAMEWORK-COMPLETED-AGAIN(D23)")
		case ran && (strings.Contains(op, "beh=okpanic") || strings.Contains(op, "beh=errpanic")) && !strings.Contains(obs, ","):
			h.Count("reached." + kind + ".handler-completed-then-panicked.one-completion")
		case ran && strings.Contains(op, " cb=2") && strings.Contains(obs, "comps=f:err") && strings.Contains(op, "beh=badval"):
			h.Count("reached." + kind + ".picky-callback-choked.framework-completed")
		case ran && strings.Contains(obs, "comps=f:err"):
			h.Count("reached." + kind + ".handler-panicked.framework-completed")
		case ran && strings.Contains(obs, ",h:"):
			h.Count("reached." + kind + ".handler-completed-twice")
		case ran:
			h.Count("reached." + kind + ".handler-completed-once")
		case cb && strings.Contains(obs, "comps=-"):
			h.Count("reached." + kind + ".cb-never-completed(D11)")
		case cb:
			h.Count("reached." + kind + ".framework-error-completion")
		default:
			h.Count("reached." + kind + ".notify-dropped")
		}
	case "has":
		h.Count("reached.has." + obs[:1])
	case "meth", "shape":
		h.Count("reached." + kind + "." + obs)
	case "build":
		if strings.HasPrefix(obs, "n=0 ") {
			h.Count("reached.build.empty")
		} else {
			h.Count("reached.build.nonempty")
		}
	}
}

// exhaustiveShapes: every synthetic method with receiver *ZooA and up to maxIn parameters drawn from the whole type pool
func exhaustiveShapes(h *hx.T, run func(string), maxIn int) {
	n := 0
	var rec func(ix []int)
	emit := func(ix []int) {
		strs := make([]string, len(ix))
		for i, x := range ix {
			strs[i] = fmt.Sprint(x)
		}
		for exp := 0; exp <= 1; exp++ {
			op := fmt.Sprintf("shape exp=%d var=0 ix=%s", exp, strings.Join(strs, ","))
			m, _ := shapeMethod(hx.Words(op))
			run("shape ix=" + strings.Join(strs, ",") + " " + methodFacts(m))
			n++
		}
	}
	rec = func(ix []int) {
		emit(ix)
		if len(ix) >= maxIn {
			return
		}
		for t := range shapePool {
			rec(append(append([]int(nil), ix...), t))
		}
	}
	emit(nil)
	rec([]int{0})
	h.Stats[fmt.Sprintf("exhaustive.shapes.nin<=%d", maxIn)] = n
}

// exhaustiveRoutes: every route of up to maxSeg segments over a small segment alphabet, against one fixed case
func exhaustiveRoutes(h *hx.T, run func(string), maxSeg int) {
	run("reset")
	for _, l := range methLines(zoo[0]) {
		run(l)
	}
	for _, l := range methLines(zoo[1]) {
		run(l)
	}
	run("newcol col=0 reg=0")
	run(fmt.Sprintf("entry col=0 eid=1 ty=ZooA ptr=1 tname=%s group=%s gvia=group nf=none", hx16("ZooA"), hx16("hello")))
	run(fmt.Sprintf("entry col=0 eid=2 ty=ZooV ptr=1 tname=%s group=%s gvia=inner nf=lower", hx16("ZooV"), hx16("_")))
	run("build col=0 via=col")
	alphabet := []string{"", "_", "hello", "Join", "Say", "ptrjoin", "ptrsay", "x"}
	dc := ctxTypeHex("dummy")
	data := []byte(`{"abc":"e","n":2}`)
	hints := decodeHints("json", data)
	n := 0
	var rec func(segs []string)
	rec = func(segs []string) {
		r := hx16(strings.Join(segs, "."))
		run("has col=0 route=" + r)
		run(fmt.Sprintf("csz col=0 route=%s ser=json ctx=dummy ctxt=%s cb=1 beh=ok data=%s%s", r, dc, hx.Hex(data), hints))
		run(fmt.Sprintf("csz col=0 route=%s ser=json ctx=dummy ctxt=%s cb=0 beh=ok data=%s%s", r, dc, hx.Hex(data), hints))
		n++
		if len(segs) >= maxSeg {
			return
		}
		for _, a := range alphabet {
			rec(append(append([]string(nil), segs...), a))
		}
	}
	for _, a := range alphabet {
		rec([]string{a})
	}
	h.Stats[fmt.Sprintf("exhaustive.routes.segments<=%d.alphabet%d", maxSeg, len(alphabet))] = n
}

func silence() {
	log.SetOutput(io.Discard)
	for _, n := range []string{"default", "exception"} {
		if p := proxy.GetLogs().GetLog(n); p != nil {
			p.SetLogLevel(logrus.PanicLevel)
		}
	}
}

func TestRun(t *testing.T) {
	silence()
	h := hx.Open()
	defer h.Close()
	run := func(op string) {
		obs := exec(op)
		h.Emit(op, obs)
		countObs(h, op, obs)
	}
	if ops := hx.ReplayOps(); ops != nil {
		for _, op := range ops {
			run(op)
		}
		return
	}
	for _, op := range hx.CorpusOps(hx.Env("VERIF_CORPUS", "corpus/C13")) {
		h.Count("corpus")
		run(op)
	}
	g := &gen{h: h, run: run}
	n := hx.EnvInt("VERIF_N", 6000)
	// every zoo method once through the predicate, outside any case state
	run("reset")
	for _, z := range zoo {
		for _, l := range methLines(z) {
			h.Count("zoo.method")
			run(l)
		}
	}
	if h.Thorough() {
		exhaustiveShapes(h, run, 4)
		exhaustiveRoutes(h, run, 4)
	} else {
		exhaustiveShapes(h, run, 3)
		exhaustiveRoutes(h, run, 3)
	}
	start := h.N
	for h.N-start < n/5 {
		h.Count("op.shape")
		run(g.shapeOp())
	}
	n += h.N
	for h.N < n {
		g.caseSetup()
		h.Count("case")
		k := 25 + h.R.Intn(50)
		for i := 0; i < k; i++ {
			switch x := h.R.Intn(20); {
			case x < 3:
				h.Count("op.has")
				run(g.hasOp())
			case x < 12:
				h.Count("op.csz")
				run(g.cszOp())
			case x < 16:
				h.Count("op.call")
				run(g.callOp())
			default:
				h.Count("op.disp")
				run(g.dispOp())
			}
		}
	}
}

// TestMkCorpus (development aid): VERIF_MKCORPUS=<template>:<out> completes hand-written
// csz/disp op lines with the decode hints and `meth <Type>` lines with the
// full descriptor listing of that zoo type.
func TestMkCorpus(t *testing.T) {
	spec := hx.Env("VERIF_MKCORPUS", "")
	if spec == "" {
		t.Skip()
	}
	parts := strings.SplitN(spec, ":", 2)
	b, err := os.ReadFile(parts[0])
	if err != nil {
		t.Fatal(err)
	}
	var out []string
	for _, l := range strings.Split(string(b), "\n") {
		ws := hx.Words(l)
		switch {
		case len(ws) == 2 && ws[0] == "meth":
			out = append(out, methLines(zooByName(ws[1]))...)
		case len(ws) > 0 && ws[0] == "csz" && !strings.Contains(l, " d:"):
			out = append(out, l+decodeHints(kvs(ws, "ser"), hx.KVHex(ws, "data")))
		case len(ws) > 0 && ws[0] == "disp" && !strings.Contains(l, " d:"):
			out = append(out, l+" rc="+hx16(reflect.TypeOf(service.NewRemoteContext()).String())+decodeHints("proto", hx.KVHex(ws, "data")))
		default:
			out = append(out, l)
		}
	}
	if err := os.WriteFile(parts[1], []byte(strings.Join(out, "\n")), 0o644); err != nil {
		t.Fatal(err)
	}
}
