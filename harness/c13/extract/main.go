// c13 facts extractor: reads apimapper/registry/api_registry.go with go/ast and
// regenerates lean/Cell2v/Gen/C13Registry.lean — every execution path through
// (*APIRegistry).AddCollection as a flat list of lock operations and accesses
// of the name->collection map, in execution order.  Props/C13 proves over these
// paths that the lookup and the insert happen inside ONE write-locked critical
// section (or the lookup is repeated after the write lock was taken), which is
// what makes AddCollection a single atomic step of the registry model.
// Syntax only, no type checking; anything it does not understand (loops,
// switch, goto, go statements) makes `parsed` false, which fails the theorem.
//
// usage: go run ./c13/extract -repo /repo -out /verif/lean/Cell2v/Gen/C13Registry.lean
// Overlays named in VERIF_GO_FLAGS (-overlay=file.json) are honoured.
package main

import (
	"encoding/json"
	"flag"
	"fmt"
	"go/ast"
	"go/parser"
	"go/token"
	"os"
	"path/filepath"
	"strings"
)

func overlayMap() map[string]string {
	m := map[string]string{}
	for _, f := range strings.Fields(os.Getenv("VERIF_GO_FLAGS")) {
		if !strings.HasPrefix(f, "-overlay=") {
			continue
		}
		b, err := os.ReadFile(strings.TrimPrefix(f, "-overlay="))
		if err != nil {
			continue
		}
		var o struct{ Replace map[string]string }
		if json.Unmarshal(b, &o) == nil {
			for k, v := range o.Replace {
				m[k] = v
			}
		}
	}
	return m
}

type ex struct {
	recv    string
	field   string // the map field
	parsed  bool
	paths   [][]string
	methods map[string]*ast.FuncDecl // the other methods of APIRegistry declared in the file (helpers are inlined)
	depth   int
}

// helperPaths: a call r.helper(...) of another method of the registry declared in the same file is inlined:
// every path through its body (with the helper's own receiver name), without the closing "ret"; nil = not a helper call
func (e *ex) helperPaths(c *ast.CallExpr) [][]string {
	sel, ok := c.Fun.(*ast.SelectorExpr)
	if !ok {
		return nil
	}
	id, ok := sel.X.(*ast.Ident)
	if !ok || id.Name != e.recv {
		return nil
	}
	fd := e.methods[sel.Sel.Name]
	if fd == nil || fd.Body == nil {
		return nil
	}
	if e.depth >= 4 || len(fd.Recv.List) != 1 || len(fd.Recv.List[0].Names) != 1 {
		e.parsed = false
		return [][]string{{}}
	}
	sub := &ex{recv: fd.Recv.List[0].Names[0].Name, field: e.field, parsed: true, methods: e.methods, depth: e.depth + 1}
	sub.walk(fd.Body.List, nil, func(p []string) {
		sub.paths = append(sub.paths, append(append([]string(nil), p...), "ret"))
	})
	if !sub.parsed {
		e.parsed = false
	}
	var out [][]string
	for _, p := range sub.paths {
		q := append([]string(nil), p[:len(p)-1]...)
		for _, ev := range q {
			if strings.HasPrefix(ev, "defer") { // a deferred unlock inside a helper runs when the HELPER returns
				e.parsed = false
			}
		}
		out = append(out, q)
	}
	if len(out) == 0 {
		out = [][]string{{}}
	}
	return out
}

// product: every concatenation of one alternative of a with one of b
func product(a, b [][]string) [][]string {
	var out [][]string
	for _, x := range a {
		for _, y := range b {
			out = append(out, append(append([]string(nil), x...), y...))
		}
	}
	return out
}

// lockOp: r.Lock() / r.RWMutex.Lock() ... -> event name, or ""
func (e *ex) lockOp(c *ast.CallExpr) string {
	sel, ok := c.Fun.(*ast.SelectorExpr)
	if !ok {
		return ""
	}
	base := sel.X
	if s2, ok := base.(*ast.SelectorExpr); ok { // r.RWMutex.Lock()
		base = s2.X
	}
	id, ok := base.(*ast.Ident)
	if !ok || id.Name != e.recv {
		return ""
	}
	switch sel.Sel.Name {
	case "Lock":
		return "lockW"
	case "Unlock":
		return "unlockW"
	case "RLock":
		return "lockR"
	case "RUnlock":
		return "unlockR"
	}
	return ""
}

func (e *ex) isMap(x ast.Expr) bool {
	s, ok := x.(*ast.SelectorExpr)
	if !ok || s.Sel.Name != e.field {
		return false
	}
	id, ok := s.X.(*ast.Ident)
	return ok && id.Name == e.recv
}

// reads: the events of evaluating an expression, as a list of alternatives (more than one when an inlined helper
// branches); function literals make the result unknown
func (e *ex) reads(n ast.Node) [][]string {
	out := [][]string{{}}
	if n == nil {
		return out
	}
	emit := func(ev string) { out = product(out, [][]string{{ev}}) }
	ast.Inspect(n, func(x ast.Node) bool {
		switch v := x.(type) {
		case *ast.FuncLit:
			e.parsed = false
			return false
		case *ast.CallExpr:
			if op := e.lockOp(v); op != "" {
				emit(op)
				return false
			}
			if hp := e.helperPaths(v); hp != nil {
				for _, a := range v.Args { // arguments are evaluated before the call
					out = product(out, e.reads(a))
				}
				out = product(out, hp)
				return false
			}
		case ast.Expr:
			if e.isMap(v) {
				emit("read")
				return false
			}
		}
		return true
	})
	return out
}

// walk: all paths through stmts, each continued by k
func (e *ex) walk(stmts []ast.Stmt, prefix []string, k func(prefix []string)) {
	if len(stmts) == 0 {
		k(prefix)
		return
	}
	st, rest := stmts[0], stmts[1:]
	cont := func(p []string) { e.walk(rest, p, k) }
	// each: continue once per alternative
	each := func(alts [][]string, f func(p []string)) {
		for _, a := range alts {
			f(append(append([]string(nil), prefix...), a...))
		}
	}
	one := func(ev string) [][]string { return [][]string{{ev}} }
	switch s := st.(type) {
	case *ast.ExprStmt:
		each(e.reads(s.X), cont)
	case *ast.DeferStmt:
		switch e.lockOp(s.Call) {
		case "unlockW":
			each(one("deferUnlockW"), cont)
		case "unlockR":
			each(one("deferUnlockR"), cont)
		case "":
			each(e.reads(s.Call), cont)
		default:
			e.parsed = false
			cont(prefix)
		}
	case *ast.AssignStmt:
		alts := [][]string{{}}
		for _, r := range s.Rhs {
			alts = product(alts, e.reads(r))
		}
		for _, l := range s.Lhs {
			if ix, ok := l.(*ast.IndexExpr); ok && e.isMap(ix.X) {
				alts = product(product(alts, e.reads(ix.Index)), one("write"))
			} else if e.isMap(l) {
				alts = product(alts, one("write")) // the whole map is replaced
			} else {
				alts = product(alts, e.reads(l))
			}
		}
		each(alts, cont)
	case *ast.DeclStmt:
		each(e.reads(s), cont)
	case *ast.IncDecStmt:
		each(e.reads(s.X), cont)
	case *ast.ReturnStmt:
		alts := [][]string{{}}
		for _, r := range s.Results {
			alts = product(alts, e.reads(r))
		}
		each(product(alts, one("ret")), func(p []string) { e.paths = append(e.paths, p) })
	case *ast.BlockStmt:
		e.walk(s.List, prefix, cont)
	case *ast.IfStmt:
		starts := [][]string{prefix}
		if s.Init != nil {
			starts = nil
			e.walk([]ast.Stmt{s.Init}, prefix, func(q []string) { starts = append(starts, q) })
		}
		for _, p0 := range starts {
			for _, c := range e.reads(s.Cond) {
				p := append(append([]string(nil), p0...), c...)
				e.walk(s.Body.List, p, cont)
				switch el := s.Else.(type) {
				case nil:
					cont(p)
				case *ast.BlockStmt:
					e.walk(el.List, p, cont)
				case *ast.IfStmt:
					e.walk([]ast.Stmt{el}, p, cont)
				default:
					e.parsed = false
				}
			}
		}
	case *ast.EmptyStmt:
		cont(prefix)
	default:
		// loops, switch, select, go, goto, labels: not understood
		e.parsed = false
		cont(prefix)
	}
}

func leanList(xs []string) string {
	q := make([]string, len(xs))
	for i, x := range xs {
		q[i] = "." + x
	}
	return "[" + strings.Join(q, ", ") + "]"
}

func main() {
	repo := flag.String("repo", "/repo", "")
	out := flag.String("out", "", "")
	flag.Parse()
	p := filepath.Join(*repo, "apimapper/registry/api_registry.go")
	if r, ok := overlayMap()[p]; ok {
		p = r
	}
	f, err := parser.ParseFile(token.NewFileSet(), p, nil, 0)
	if err != nil {
		fmt.Fprintln(os.Stderr, err)
		os.Exit(1)
	}
	// the map field of APIRegistry: the (only) field of map type
	field := ""
	ast.Inspect(f, func(n ast.Node) bool {
		ts, ok := n.(*ast.TypeSpec)
		if !ok || ts.Name.Name != "APIRegistry" {
			return true
		}
		if st, ok := ts.Type.(*ast.StructType); ok {
			for _, fl := range st.Fields.List {
				if _, ok := fl.Type.(*ast.MapType); ok && len(fl.Names) == 1 && field == "" {
					field = fl.Names[0].Name
				}
			}
		}
		return false
	})
	e := &ex{field: field, parsed: field != "", methods: map[string]*ast.FuncDecl{}}
	for _, d := range f.Decls {
		if fd, ok := d.(*ast.FuncDecl); ok && fd.Recv != nil && len(fd.Recv.List) == 1 && fd.Name.Name != "AddCollection" {
			t := fd.Recv.List[0].Type
			if st, ok := t.(*ast.StarExpr); ok {
				t = st.X
			}
			if id, ok := t.(*ast.Ident); ok && id.Name == "APIRegistry" {
				e.methods[fd.Name.Name] = fd
			}
		}
	}
	found := false
	for _, d := range f.Decls {
		fd, ok := d.(*ast.FuncDecl)
		if !ok || fd.Body == nil || fd.Name.Name != "AddCollection" || fd.Recv == nil || len(fd.Recv.List) != 1 || len(fd.Recv.List[0].Names) != 1 {
			continue
		}
		found = true
		e.recv = fd.Recv.List[0].Names[0].Name
		e.walk(fd.Body.List, nil, func(p []string) {
			e.paths = append(e.paths, append(append([]string(nil), p...), "ret"))
		})
	}
	if !found {
		e.parsed = false
	}
	var sb strings.Builder
	sb.WriteString("import Cell2v.Model.ApiMap\n/-! GENERATED by harness/c13/extract from apimapper/registry/api_registry.go — do not edit. -/\nnamespace Cell2v.Gen.C13\nopen Cell2v.ApiMap\n\n")
	sb.WriteString("/-- the extractor understood every statement of `(*APIRegistry).AddCollection` (straight-line code, if/else, return, defer of an unlock) -/\n")
	fmt.Fprintf(&sb, "def parsed : Bool := %v\n\n", e.parsed)
	sb.WriteString("/-- every execution path through `AddCollection`: lock operations on the registry's RWMutex and reads/writes of its name->collection map, in execution order -/\n")
	sb.WriteString("def addCollectionPaths : List (List REv) := [\n")
	for i, p := range e.paths {
		sep := ","
		if i == len(e.paths)-1 {
			sep = ""
		}
		fmt.Fprintf(&sb, "  %s%s\n", leanList(p), sep)
	}
	sb.WriteString("]\n\nend Cell2v.Gen.C13\n")
	if *out == "" {
		fmt.Print(sb.String())
		return
	}
	if err := os.WriteFile(*out, []byte(sb.String()), 0o644); err != nil {
		fmt.Fprintln(os.Stderr, err)
		os.Exit(1)
	}
}
