// C12 correspondence harness: drives the REAL nodectrl.NodeCtrl (real
// NodeCtrl.Start, real AdminService actor, real `ctrl.cmd` / `ctrl.servicecmd`
// requests through the node.admin API collection) with a recording
// define.INodeApp and scripted hosted services on a local proto.actor
// ActorSystem, inside a testing/synctest bubble (virtual clock: the 3 s
// retire-support probe and the 30 s request timeout cost nothing).
//
// Hosted service kinds (token of the `reset k=` list):
//
//	raw  - scripted recording actor speaking the ServiceRequest/ServiceResponse
//	       protocol; holds the `queryretire` request until a `qack` op answers it
//	nok / nno / nnl - a REAL node/service.NodeService with the real builtin
//	       `ctrl.cmd` entry (node/builtin/ctrlcmd.go) and a scripted
//	       ICtrlCmdListener answering queryretire with "ok" / "no" / no listener
//	       at all; its `retired` goes through the real app.NotifyServiceRetired
//	nem  - like nok, but the listener does not know queryretire and answers ""
//	dead - hosted according to the configuration but INodeApp.GetService is nil when the node starts
//
// `reset ... lst=<P|F|W|G|T|A|M...>`: FilterSelfServices is the REAL node/app.App.FilterSelfServices of an App started on
// a generated config dir whose node lists the hosted services (P backend, F/W/G frontend = gate, T another type,
// A backend with a client address: see svcAttrs) interleaved with unconfigured names (M).
// GetService is the REAL node/app.App.GetService over the App's cluster directory, fed like a discovery
// provider would: `res i=<k> up=0|1` drops / restores s<k> in the node's member record; `reflect` (or
// `reset ... refl=auto`, at once) makes the directory show the node state published last.
//
// `reset ... stop=later|inline1|inline0`: the recording INodeApp completes StopNode through a later
// `stopdone` op (or never), or inside the StopNode call with true / false.
//
// `reset ... pd=<ms,ms,...>`: INodeApp.UpdateNodeState is the REAL node/app.App.UpdateNodeState with a stub
// cluster provider whose k-th UpdateClusterState takes pd[k] ms of virtual time.
//
// `reset ... pf=<0|1,...>`: the stub provider's k-th UpdateClusterState of the case fails (1: it returns an
// error after its latency, the registry did not take the state) or succeeds (0, and beyond the list).
//
// One observation per op (pub: states in the order the provider saw them complete successfully; upd: states
// in the order the controller handed them to UpdateNodeState; lost: states the provider refused):
//
//	r=<reply class> pub=<states published> upd=<states> lost=<states refused> stop=<StopNode calls> sent=<sorted name:cmd> st=<NodeCtrl.GetState()>
package c12

import (
	"fmt"
	"io"
	"log"
	"log/slog"
	"os"
	"path/filepath"
	"sort"
	"strconv"
	"strings"
	"sync"
	"syscall"
	"testing"
	"testing/synctest"
	"time"

	"github.com/asynkron/protoactor-go/actor"
	"github.com/asynkron/protoactor-go/remote"
	"github.com/sirupsen/logrus"

	as "github.com/dfklegend/cell2/actorex/service"
	messages "github.com/dfklegend/cell2/actorex/service/servicemsgs"
	"github.com/dfklegend/cell2/apimapper/registry"
	"github.com/dfklegend/cell2/baseapp"
	"github.com/dfklegend/cell2/baseapp/interfaces"
	"github.com/dfklegend/cell2/node/app"
	"github.com/dfklegend/cell2/node/builtin"
	"github.com/dfklegend/cell2/node/builtin/msgs"
	"github.com/dfklegend/cell2/node/cluster"
	"github.com/dfklegend/cell2/node/config"
	nservice "github.com/dfklegend/cell2/node/service"
	"github.com/dfklegend/cell2/nodectrl"
	"github.com/dfklegend/cell2/utils/logger"

	"cell2verif/hx"
)

// ---------------------------------------------------------------- recording

type rec struct {
	mu       sync.Mutex
	upd      []int // states handed to INodeApp.UpdateNodeState, in call order (the node's own state changes)
	inCall   int   // UpdateNodeState calls that have not returned yet
	inFlight int   // provider.UpdateClusterState calls that have not completed yet
	pubs     []int // states as the cluster provider sees them *complete* (successfully)
	lost     []int // states whose provider update completed with an error
	stops    int
	fins     []func(bool)
	sent     []string
	reply    string // last reply received by the issuing actor
	got      bool
}

func (r *rec) addSent(name, route, cmd string) {
	r.mu.Lock()
	if route != "ctrl.cmd" {
		cmd = route + "/" + cmd
	}
	r.sent = append(r.sent, name+":"+cmd)
	r.mu.Unlock()
}

func (r *rec) setReply(s string) {
	r.mu.Lock()
	r.reply, r.got = s, true
	r.mu.Unlock()
}

// recApp is the recording define.INodeApp.
type recApp struct {
	sys   *actor.ActorSystem
	names []string
	pids  map[string]*actor.PID
	r     *rec
	real  *app.App
	cfg   *app.App        // a started real App whose node lists the services (with gaps): the real FilterSelfServices
	down  map[string]bool // services missing from the node's member record right now
	// the node state the directory shows for this node: like etcd, the provider's own publication comes
	// back through the topology - at once (autoReflect) or when the op `reflect` says so
	reflected   int
	lastPub     int
	autoReflect bool
	// how StopNode completes: "later" (op stopdone), "inline1" / "inline0": the callback runs inside
	// StopNode, before it returns, with true / false (what baseapp does when every module stops synchronously)
	stopMode string
}

func (a *recApp) GetActorSystem() *actor.ActorSystem { return a.sys }

// GetService is the REAL node/app.App.GetService: a lookup in the App's cluster directory, which the
// harness feeds the way a discovery provider does (publishTopology): the node's own member record with
// the services that are currently resolvable and the node state the directory currently shows.
func (a *recApp) GetService(name string) *actor.PID { return a.cfg.GetService(name) }

// publishTopology pushes the node's member record into the real directory.
func (a *recApp) publishTopology() {
	a.r.mu.Lock()
	state := a.reflected
	var keep []string
	members := a.cfg.GetCluster().BuildSelfClusterTopology()
	for _, m := range members {
		keep = keep[:0]
		for _, full := range m.Services {
			_, name := app.SplitServiceName(full)
			if !a.down[name] {
				keep = append(keep, full)
			}
		}
		m.Services = append([]string{}, keep...)
		m.State = state
	}
	a.r.mu.Unlock()
	a.cfg.GetCluster().UpdateClusterTopology(members)
}

// FilterSelfServices is the REAL node/app.App.FilterSelfServices of a node whose service list names
// the hosted services, possibly interleaved with names that have no entry in the services table.
func (a *recApp) FilterSelfServices(filter func(name string, cfg *config.ServiceInfo)) {
	a.cfg.FilterSelfServices(filter)
}

type noopCreator struct{}

func (noopCreator) Create(name string) {}

const launchMode = "c12verif"

// svcAttrs: the `services:` entry of a hosted service per pattern letter. The controller hosts - tracks,
// probes, tells, waits for - every configured service of the node whatever its attributes say.
//
//	P backend (Type only)              F frontend (gate) with a tcp client address
//	W frontend with a ws address only  G frontend flag alone
//	T backend of another service type  A backend that (oddly) carries a client address
var svcAttrs = map[rune]string{
	'P': "    Type: c12svc\n",
	'F': "    Type: c12gate\n    Frontend: true\n    ClientAddress: 127.0.0.1:39513\n",
	'W': "    Type: c12gate\n    Frontend: true\n    WSClientAddress: 127.0.0.1:39514\n",
	'G': "    Type: c12svc\n    Frontend: true\n",
	'T': "    Type: c12gate\n",
	'A': "    Type: c12svc\n    ClientAddress: 127.0.0.1:39515\n",
}

const hostedLetters = "PFWGTA"

var (
	cfgApps = map[string]*app.App{}
	cfgInit bool
)

// cfgApp returns (cached per pattern) a real App prepared and started on a generated configuration
// directory: one node `n1`, clustering and the App's own node control off, whose `Services:` list is
// given by the pattern - P/F/W/G/T/A: the next hosted service s<i> (configured under `services:` with the
// attributes of svcAttrs), M: a name without configuration (the App logs and skips it).
func cfgApp(pattern string) *app.App {
	if !cfgInit {
		cfgInit = true
		nservice.Factory.Register("c12svc", noopCreator{})
		nservice.Factory.Register("c12gate", noopCreator{})
		baseapp.RegisterLaunchFunc(launchMode, func(interfaces.IApp) {})
	}
	if a, ok := cfgApps[pattern]; ok {
		return a
	}
	dir, err := os.MkdirTemp("", "c12node")
	if err != nil {
		panic(err)
	}
	var names, entries []string
	np, nm := 0, 0
	for _, ch := range pattern {
		if ch != 'M' {
			name := fmt.Sprintf("s%d", np)
			np++
			names = append(names, name)
			entries = append(entries, "  "+name+":\n"+svcAttrs[ch])
		} else {
			names = append(names, fmt.Sprintf("x%d", nm))
			nm++
		}
	}
	nodes := "---\nnodes:\n  n1:\n    StartMode: " + launchMode + "\n    Address: " + cfgAddress + "\n    Services: [" + strings.Join(names, ", ") + "]\nservices:\n" + strings.Join(entries, "")
	if len(entries) == 0 {
		nodes += "  unused:\n    Type: c12svc\n"
	}
	clusterCfg := "---\nEnable: false\nNodeCtrl: false\nName: c12verif\n"
	os.WriteFile(filepath.Join(dir, "nodes.yaml"), []byte(nodes), 0o644)
	os.WriteFile(filepath.Join(dir, "cluster.yaml"), []byte(clusterCfg), 0o644)
	a := app.NewNode()
	a.Prepare(dir)
	a.StartNode("n1", func(bool) {})
	synctest.Wait()
	a.GetApp().Cleanup() // stops the App's own run service; FilterSelfServices only reads the configuration
	synctest.Wait()
	os.RemoveAll(dir)
	cfgApps[pattern] = a
	return a
}

// UpdateNodeState goes through the REAL node/app.App.UpdateNodeState (app.Node with the
// stub provider below), so that "mirrored to the discovery provider" is what is observed.
func (a *recApp) UpdateNodeState(state int) {
	a.r.mu.Lock()
	a.r.upd = append(a.r.upd, state)
	a.r.inCall++
	a.r.mu.Unlock()
	a.real.UpdateNodeState(state)
	a.r.mu.Lock()
	a.r.inCall--
	a.r.mu.Unlock()
}

// provStub is the cluster provider: the k-th UpdateClusterState of a case takes delays[k] of
// (virtual) time - registry IO - and the state counts as published when the call completes.
type provStub struct {
	r      *rec
	app    *recApp
	delays []time.Duration
	fails  []bool
	n      int
}

type provErr struct{}

func (provErr) Error() string { return "registry unreachable" }

func (p *provStub) StartMember(cluster.ICluster) error { return nil }
func (p *provStub) StartClient(cluster.ICluster) error { return nil }
func (p *provStub) Shutdown(bool) error                { return nil }
func (p *provStub) UpdateClusterState(state int) error {
	p.r.mu.Lock()
	k := p.n
	p.n++
	p.r.inFlight++
	p.r.mu.Unlock()
	if k < len(p.delays) && p.delays[k] > 0 {
		time.Sleep(p.delays[k])
	}
	p.r.mu.Lock()
	if k < len(p.fails) && p.fails[k] {
		// the registry did not take it: nothing changes in the directory
		p.r.lost = append(p.r.lost, state)
		p.r.inFlight--
		p.r.mu.Unlock()
		return provErr{}
	}
	p.r.pubs = append(p.r.pubs, state)
	p.r.inFlight--
	auto := false
	if p.app != nil {
		p.app.lastPub = state
		if p.app.autoReflect {
			p.app.reflected = state
			auto = true
		}
	}
	p.r.mu.Unlock()
	if auto {
		p.app.publishTopology()
	}
	return nil
}
func (a *recApp) StopNode(fin func(succ bool)) {
	a.r.mu.Lock()
	a.r.stops++
	inline := a.stopMode == "inline1" || a.stopMode == "inline0"
	if !inline {
		a.r.fins = append(a.r.fins, fin)
	}
	a.r.mu.Unlock()
	if inline && fin != nil {
		fin(a.stopMode == "inline1")
	}
}

// ---------------------------------------------------------------- raw scripted actor

type doAck struct{ res string }
type doSend struct {
	route string
	msg   interface{}
}

type rawSvc struct {
	name    string
	r       *rec
	admin   func() *actor.PID
	pending []*messages.ServiceRequest
	nextID  int32
	acked   string
}

func respond(ctx actor.Context, req *messages.ServiceRequest, result string) {
	if req.ReqId == as.NotifyReqID || req.Sender == nil {
		return
	}
	b, tn, err := remote.Serialize(&msgs.CtrlCmdAck{Result: result}, as.DefaultSerializeId)
	if err != nil {
		panic(err)
	}
	ctx.Send(req.Sender, &messages.ServiceResponse{ReqId: req.ReqId, Type: tn, Body: b})
}

func (s *rawSvc) Receive(ctx actor.Context) {
	switch m := ctx.Message().(type) {
	case *messages.ServiceRequest:
		raw, err := remote.Deserialize(m.Body, m.Type, as.DefaultSerializeId)
		cmd := "?"
		if cc, ok := raw.(*msgs.CtrlCmd); ok && err == nil {
			cmd = cc.Cmd
		}
		s.r.addSent(s.name, m.Route, cmd)
		if cmd == "queryretire" {
			s.pending = append(s.pending, m)
			return
		}
		respond(ctx, m, "ok")
	case *messages.ServiceResponse:
		if m.ErrCode != 0 {
			s.r.setReply("\x00err")
			return
		}
		raw, err := remote.Deserialize(m.Body, m.Type, as.DefaultSerializeId)
		if err != nil {
			s.r.setReply("\x00err")
			return
		}
		switch a := raw.(type) {
		case *msgs.CtrlCmdAck:
			s.r.setReply(a.Result)
		case *msgs.ServiceCmdAck:
			s.r.setReply(a.Result)
		default:
			s.r.setReply("\x00err")
		}
	case *doAck:
		if len(s.pending) == 0 {
			s.acked = "none"
			return
		}
		req := s.pending[0]
		s.pending = s.pending[1:]
		respond(ctx, req, m.res)
		s.acked = m.res
	case *doSend:
		b, tn, err := remote.Serialize(m.msg, as.DefaultSerializeId)
		if err != nil {
			panic(err)
		}
		s.nextID++
		ctx.Send(s.admin(), &messages.ServiceRequest{Sender: ctx.Self(), ReqId: s.nextID, Route: m.route, Type: tn, Body: b})
	}
}

// ---------------------------------------------------------------- real NodeService with scripted listener

type nodeSvc struct {
	*nservice.NodeService
}

func (n *nodeSvc) GetNodeService() *nservice.NodeService { return n.NodeService }

type listener struct {
	name string
	ans  string
	r    *rec
}

func (l *listener) Handler(cmd string) string {
	l.r.addSent(l.name, "ctrl.cmd", cmd)
	if cmd == "queryretire" {
		return l.ans
	}
	return "ok"
}

// ---------------------------------------------------------------- one case = one node

type svc struct {
	name string
	kind string
	pid  *actor.PID
	raw  *rawSvc
	node *nodeSvc
}

type world struct {
	sys     *actor.ActorSystem
	ctrl    *nodectrl.NodeCtrl
	app     *recApp
	r       *rec
	svcs    []*svc
	master  *rawSvc
	mpid    *actor.PID
	ghost   *rawSvc
	gpid    *actor.PID
	all     []*actor.PID // everything with a run service to stop
	plain   []*actor.PID // scripted actors on the default dispatcher
	delayed bool         // the provider takes virtual time in this case
}

// One ActorSystem for the whole run (creating one costs ~2.5 ms); every case gets fresh actors.
var (
	theSys *actor.ActorSystem
	caseNo int
)

func system() *actor.ActorSystem {
	if theSys == nil {
		theSys = actor.NewActorSystemWithConfig(actor.Configure(actor.WithLoggerFactory(func(*actor.ActorSystem) *slog.Logger {
			return slog.New(slog.NewTextHandler(io.Discard, nil))
		})))
		// the cluster directory hands out PIDs "host:port/<service name>": resolve them to the current
		// case's actors (no remote layer in a bubble)
		theSys.ProcessRegistry.RegisterAddressResolver(func(pid *actor.PID) (actor.Process, bool) {
			w := resolving
			if pid.Address != cfgAddress || w == nil {
				return nil, false
			}
			for _, s := range w.svcs {
				if s.name == pid.Id && s.pid != nil {
					return theSys.ProcessRegistry.GetLocal(s.pid.Id)
				}
			}
			return nil, false
		})
	}
	return theSys
}

const cfgAddress = "127.0.0.1:39512"

// the world whose actors the directory PIDs resolve to (set while a case is being built, too)
var resolving *world

var cur *world

var stateNames = map[int]string{0: "init", 1: "working", 2: "retiring", 3: "retired", 4: "exiting", 5: "exited"}

func stName(i int) string {
	if s, ok := stateNames[i]; ok {
		return s
	}
	return "s" + strconv.Itoa(i)
}

func (w *world) teardown() {
	// cell2 services only stop their run-service goroutine on a *user* message *actor.Stop
	for _, p := range w.all {
		w.sys.Root.Send(p, &actor.Stop{})
	}
	for _, p := range w.plain {
		w.sys.Root.Stop(p)
	}
	synctest.Wait()
	// their dispatcher is gone, so a system Stop would never be processed: free the names by hand
	// (the admin service is always spawned under the fixed name __nodeadmin__)
	for _, p := range w.all {
		w.sys.ProcessRegistry.Remove(p)
	}
}

func (w *world) spawnRaw(name string) (*rawSvc, *actor.PID) {
	s := &rawSvc{name: name, r: w.r, admin: func() *actor.PID { return w.ctrl.GetAdmin() }}
	pid := w.sys.Root.Spawn(actor.PropsFromProducer(func() actor.Actor { return s }))
	w.plain = append(w.plain, pid)
	return s, pid
}

func newWorld(kinds []string, stopMode string, delays []time.Duration, pattern string, autoReflect bool, fails []bool) *world {
	if cur != nil {
		cur.teardown()
	}
	caseNo++
	w := &world{sys: system(), r: &rec{}, delayed: len(delays) > 0}
	// the real stateutils.NotifyServiceRetired reaches the controller through the global app.Node
	app.Node = app.NewNode()
	w.ctrl = app.Node.GetNodeCtrl()
	prov := &provStub{r: w.r, delays: delays, fails: fails}
	app.Node.SetProvider(prov)
	resolving = w
	np := len(pattern) - strings.Count(pattern, "M")
	if np != len(kinds) || strings.Trim(pattern, hostedLetters+"M") != "" {
		pattern = strings.Repeat("P", len(kinds))
	}
	w.app = &recApp{sys: w.sys, pids: map[string]*actor.PID{}, r: w.r, stopMode: stopMode, real: app.Node,
		cfg: cfgApp(pattern), down: map[string]bool{}, reflected: 1, lastPub: 1, autoReflect: autoReflect}
	prov.app = w.app
	for i, k := range kinds {
		s := &svc{name: fmt.Sprintf("s%d", i), kind: k}
		switch k {
		case "raw":
			s.raw, s.pid = w.spawnRaw(s.name)
		case "nok", "nno", "nnl", "nem":
			ns := &nodeSvc{NodeService: nservice.NewService()}
			ns.SetOwner(ns)
			if k != "nnl" {
				ans := "ok"
				switch k {
				case "nno":
					ans = "no"
				case "nem": // a listener that does not know queryretire: falls through to ""
					ans = ""
				}
				ns.SetCtrlCmdListener(&listener{name: s.name, ans: ans, r: w.r})
			}
			props, ext := as.NewServicePropsWithNewScheDisp(func() actor.Actor { return ns }, fmt.Sprintf("c12.%d.%s", caseNo, s.name))
			ext.WithAPIs(nservice.SystemAPI)
			pid, err := w.sys.Root.SpawnNamed(props, fmt.Sprintf("c12.%d.%s", caseNo, s.name))
			if err != nil {
				panic(err)
			}
			nservice.StartNodeService(w.sys.Root, pid, s.name, &config.ServiceInfo{Type: "verif"})
			s.node, s.pid = ns, pid
			w.all = append(w.all, pid)
		default:
			// dead: a live scripted actor that INodeApp.GetService does not resolve when the node starts
			s.kind = "dead"
			s.raw, s.pid = w.spawnRaw(s.name)
			w.app.down[s.name] = true
		}
		w.svcs = append(w.svcs, s)
		w.app.names = append(w.app.names, s.name)
		w.app.pids[s.name] = s.pid
	}
	w.master, w.mpid = w.spawnRaw("master")
	w.ghost, w.gpid = w.spawnRaw("ghost")
	synctest.Wait()
	w.app.publishTopology()
	w.ctrl.Start(w.app)
	w.all = append(w.all, w.ctrl.GetAdmin())
	// the retire-support probe fires 3 s after Start
	time.Sleep(3*time.Second + time.Millisecond)
	synctest.Wait()
	cur = w
	return w
}

// drain returns and clears what was recorded since the previous op.
func (w *world) drain() (pubs, upd, lost []int, stops int, sent []string, reply string, got bool) {
	r := w.r
	r.mu.Lock()
	defer r.mu.Unlock()
	pubs, upd, lost, stops, sent, reply, got = r.pubs, r.upd, r.lost, r.stops, r.sent, r.reply, r.got
	r.pubs, r.upd, r.lost, r.stops, r.sent, r.reply, r.got = nil, nil, nil, 0, nil, "", false
	sort.Strings(sent)
	return
}

func (w *world) obs(class func(reply string, got bool) string) string {
	pubs, upd, lost, stops, sent, reply, got := w.drain()
	names := func(xs []int) string {
		ps := make([]string, len(xs))
		for i, p := range xs {
			ps[i] = stName(p)
		}
		return strings.Join(ps, ",")
	}
	return fmt.Sprintf("r=%s pub=%s upd=%s lost=%s stop=%d sent=%s st=%s", class(reply, got), names(pubs), names(upd), names(lost), stops,
		strings.Join(sent, ","), stName(int(w.ctrl.GetState())))
}

func okOrRefused(reply string, got bool) string {
	switch {
	case !got:
		return "none"
	case reply == "ok":
		return "ok"
	}
	return "refused"
}

// stat / web_nodes are informational: whatever they answer is class `info` (texts are not compared)
func infoClass(reply string, got bool) string {
	if !got {
		return "none"
	}
	return "info"
}

func (w *world) svcAt(ws []string) *svc {
	v, _ := hx.KV(ws, "i")
	i, err := strconv.Atoi(v)
	if err != nil || i < 0 || i >= len(w.svcs) {
		return nil
	}
	return w.svcs[i]
}

// settle makes an op synchronous: quiescence, and - when the provider takes (virtual) time - until no
// UpdateNodeState call and no provider update is in progress any more. Only the ORDER in which
// publications complete is observed, never how long they take: an implementation that publishes
// asynchronously but in order is not flagged.
func settle() {
	synctest.Wait()
	w := cur
	if w == nil {
		return
	}
	for i := 0; i < 2000; i++ {
		w.r.mu.Lock()
		busy := w.r.inCall > 0 || w.r.inFlight > 0
		w.r.mu.Unlock()
		// a cell2 run service that saw a long (virtual) frame throttles itself with time.Sleep(1-2 ms)
		// before taking the next message: in a case with provider latency let that pass at least once
		if !busy && (i > 0 || !w.delayed) {
			return
		}
		time.Sleep(10 * time.Millisecond)
		synctest.Wait()
	}
}

// exec interprets one op line against the real code.
func exec(op string) string {
	ws := hx.Words(op)
	if len(ws) == 0 {
		return "bad-op"
	}
	if ws[0] == "reset" {
		k, _ := hx.KV(ws, "k")
		var kinds []string
		if k != "" {
			kinds = strings.Split(k, ",")
		}
		sm, _ := hx.KV(ws, "stop")
		var delays []time.Duration
		if pd, _ := hx.KV(ws, "pd"); pd != "" {
			for _, d := range strings.Split(pd, ",") {
				ms, _ := strconv.Atoi(d)
				delays = append(delays, time.Duration(ms)*time.Millisecond)
			}
		}
		lst, _ := hx.KV(ws, "lst")
		refl, _ := hx.KV(ws, "refl")
		var fails []bool
		if pf, _ := hx.KV(ws, "pf"); pf != "" {
			for _, f := range strings.Split(pf, ",") {
				fails = append(fails, f == "1")
			}
		}
		w := newWorld(kinds, sm, delays, lst, refl == "auto", fails)
		return w.obs(func(string, bool) string { return "-" })
	}
	w := cur
	if w == nil {
		return "bad-op"
	}
	switch ws[0] {
	case "cmd":
		if len(ws) < 2 {
			return "bad-op"
		}
		w.sys.Root.Send(w.mpid, &doSend{route: "ctrl.cmd", msg: &msgs.CtrlCmd{Cmd: ws[1]}})
		settle()
		if ws[1] == "stat" || ws[1] == "web_nodes" {
			return w.obs(infoClass)
		}
		return w.obs(okOrRefused)
	case "qack":
		s := w.svcAt(ws)
		res, _ := hx.KV(ws, "res")
		acked := "none"
		if s != nil && s.raw != nil {
			s.raw.acked = "none"
			w.sys.Root.Send(s.pid, &doAck{res: res})
			settle()
			acked = s.raw.acked
		}
		return w.obs(func(string, bool) string { return "ack:" + acked })
	case "retired", "svccmd":
		c := "retired"
		if ws[0] == "svccmd" {
			c, _ = hx.KV(ws, "c")
		}
		v, _ := hx.KV(ws, "i")
		s := w.svcAt(ws)
		if s == nil {
			// a name the node does not host: "ghost", or s<k> beyond the configured set
			name := "ghost"
			if k, err := strconv.Atoi(v); err == nil && k >= 0 {
				name = fmt.Sprintf("s%d", k)
			}
			w.sys.Root.Send(w.gpid, &doSend{route: "ctrl.servicecmd", msg: &msgs.ServiceCmd{Name: name, Cmd: c}})
			settle()
			return w.obs(okOrRefused)
		}
		switch {
		case s.node != nil && c == "retired":
			ns := s.node.NodeService
			ns.Post(func() { app.NotifyServiceRetired(ns) })
			settle()
			return w.obs(func(string, bool) string { return "na" })
		case s.raw != nil:
			w.sys.Root.Send(s.pid, &doSend{route: "ctrl.servicecmd", msg: &msgs.ServiceCmd{Name: s.name, Cmd: c}})
		default:
			// a service without a reachable actor (dead) or a NodeService sending a non-standard command: the master speaks for it
			w.sys.Root.Send(w.mpid, &doSend{route: "ctrl.servicecmd", msg: &msgs.ServiceCmd{Name: s.name, Cmd: c}})
		}
		settle()
		return w.obs(okOrRefused)
	case "stopdone":
		w.r.mu.Lock()
		var fin func(bool)
		if len(w.r.fins) > 0 {
			fin = w.r.fins[0]
			w.r.fins = w.r.fins[1:]
		}
		w.r.mu.Unlock()
		called := "none"
		if fin != nil {
			fin(hx.KVInt(ws, "succ") == 1)
			called = "called"
		}
		settle()
		return w.obs(func(string, bool) string { return called })
	case "res":
		// INodeApp.GetService(s<i>) starts returning nil (up=0) / the pid again (up=1)
		if s := w.svcAt(ws); s != nil {
			w.r.mu.Lock()
			w.app.down[s.name] = hx.KVInt(ws, "up") != 1
			w.r.mu.Unlock()
			w.app.publishTopology()
		}
		settle()
		return w.obs(func(string, bool) string { return "-" })
	case "reflect":
		// the discovery provider's watch fires: the directory now shows the node state published last
		w.r.mu.Lock()
		w.app.reflected = w.app.lastPub
		w.r.mu.Unlock()
		w.app.publishTopology()
		settle()
		return w.obs(func(string, bool) string { return "-" })
	case "tick":
		// lets every outstanding request of the admin service time out (30 s)
		time.Sleep(40 * time.Second)
		settle()
		return w.obs(func(string, bool) string { return "-" })
	}
	return "bad-op"
}

// ---------------------------------------------------------------- generator

var oddKinds = []string{"nno", "nnl", "nem", "dead", "nok", "raw"}

type gen struct {
	h     *hx.T
	lossy bool // the current case has provider faults: let (virtual) time pass now and then
}

// reset draws the hosted service set: size 0..4, mostly services that can end up supporting retirement.
func (g *gen) reset() (string, []string) {
	h := g.h
	n := h.Pick(0, 1, 1, 2, 2, 2, 3, 3, 4)
	ks := make([]string, n)
	allSup := true
	for i := range ks {
		switch {
		case h.R.Intn(6) == 0:
			ks[i] = oddKinds[h.R.Intn(len(oddKinds))]
		case h.R.Intn(4) == 0:
			ks[i] = "nok"
		default:
			ks[i] = "raw"
		}
		if ks[i] != "raw" && ks[i] != "nok" {
			allSup = false
		}
	}
	h.Count(fmt.Sprintf("reset.n%d", n))
	if allSup && n > 0 {
		h.Count("reset.all-can-support")
	}
	mode := []string{"later", "later", "inline1", "inline1", "inline0"}[h.R.Intn(5)]
	h.Count("reset.stop-" + mode)
	op := "reset k=" + strings.Join(ks, ",") + " stop=" + mode
	// the directory shows the node's own published state at once (as a fast etcd watch would)
	if h.R.Intn(4) == 0 {
		h.Count("reset.reflect-auto")
		op += " refl=auto"
	}
	// the node's service list as the real App reads it: unconfigured names first / in the middle / last
	// and what the services table says about each hosted service: frontends (gates) next to backends,
	// other service types, client addresses - the controller hosts them all alike
	pat := []byte(strings.Repeat("P", n))
	if n > 0 && h.R.Intn(3) == 0 {
		front := false
		for i := range pat {
			if h.R.Intn(2) == 0 {
				pat[i] = "FFFWGGTA"[h.R.Intn(8)]
				front = front || strings.IndexByte("FWG", pat[i]) >= 0
			}
		}
		h.Count("reset.service-attributes")
		if front {
			h.Count("reset.hosts-a-frontend")
			if strings.Trim(string(pat), "FWG") != "" {
				h.Count("reset.frontend-next-to-backend")
			}
		}
	}
	if h.R.Intn(3) == 0 {
		for k := 1 + h.R.Intn(2); k > 0; k-- {
			at := h.R.Intn(len(pat) + 1)
			pat = append(pat[:at], append([]byte{'M'}, pat[at:]...)...)
		}
		h.Count("reset.list-with-unconfigured")
	}
	if string(pat) != strings.Repeat("P", n) {
		op += " lst=" + string(pat)
	}
	// provider latency per publication (ms of virtual time): none / random / first slow, later fast
	switch h.R.Intn(4) {
	case 0:
		pd := make([]string, 6)
		for i := range pd {
			pd[i] = strconv.Itoa(h.Pick(0, 0, 10, 100, 300))
		}
		h.Count("reset.provider-delay-random")
		op += " pd=" + strings.Join(pd, ",")
	case 1:
		h.Count("reset.provider-delay-descending")
		op += " pd=" + []string{"300,200,100,50,0,0", "500,400,300,200,100,0", "50,0,300,0,0,0", "0,0,300,0,0,0"}[h.R.Intn(4)]
	}
	// provider faults: which of the publications the registry refuses (the first / a random subset / all)
	g.lossy = false
	if h.R.Intn(4) == 0 {
		pf := make([]string, 5)
		mode := h.R.Intn(4)
		for i := range pf {
			pf[i] = "0"
			if (mode == 0 && i == 0) || (mode == 3) || ((mode == 1 || mode == 2) && h.R.Intn(3) == 0) {
				pf[i] = "1"
			}
		}
		h.Count("reset.provider-faults")
		g.lossy = true
		op += " pf=" + strings.Join(pf, ",")
	}
	return op, ks
}

func (g *gen) idx(n int) string {
	h := g.h
	if n == 0 || h.R.Intn(12) == 0 {
		if h.R.Intn(2) == 0 {
			return "ghost"
		}
		return strconv.Itoa(n + h.R.Intn(2))
	}
	return strconv.Itoa(h.R.Intn(n))
}

// op draws one arbitrary operation (the "anything may happen at any time" stream).
func (g *gen) op(n int) string {
	h := g.h
	switch h.R.Intn(20) {
	case 0:
		return "cmd stat"
	case 1, 2, 3:
		return "cmd retire"
	case 4, 5:
		return "cmd exit"
	case 6:
		return "cmd web_retire"
	case 7:
		return "cmd web_exit"
	case 8, 9, 10, 11:
		res := "ok"
		if h.R.Intn(6) == 0 {
			res = []string{"no", "OK", "", "no_listener"}[h.R.Intn(4)]
		}
		i := g.idx(n)
		if i == "ghost" {
			i = strconv.Itoa(n)
		}
		return "qack i=" + i + " res=" + res
	case 12, 13, 14, 15:
		return "retired i=" + g.idx(n)
	case 16:
		return fmt.Sprintf("stopdone succ=%d", h.R.Intn(2))
	case 17:
		if h.R.Intn(2) == 0 {
			return "stopdone succ=1"
		}
		return "svccmd i=" + g.idx(n) + " c=" + []string{"foo", "retire", "Retired", ""}[h.R.Intn(4)]
	case 18:
		return "cmd " + []string{"web_nodes", "nosuch", "RETIRE", "retired", "queryretire", "stat"}[h.R.Intn(6)]
	}
	switch h.R.Intn(4) {
	case 0:
		return "tick"
	case 1:
		return fmt.Sprintf("res i=%s up=%d", g.idx(n), h.R.Intn(2))
	case 2:
		return "reflect"
	}
	return "cmd retire"
}

// guided: the intended life cycle (support acks, retire, reports, exit, stop) with random
// insertions, omissions and repetitions, so that the deep states are reached often.
func (g *gen) guided(kinds []string) []string {
	h := g.h
	n := len(kinds)
	var ops []string
	noise := func() {
		for h.R.Intn(4) == 0 {
			ops = append(ops, g.op(n))
		}
	}
	skip := func() bool { return h.R.Intn(10) == 0 }
	for _, i := range h.R.Perm(n) {
		noise()
		if kinds[i] == "raw" && !skip() {
			ops = append(ops, fmt.Sprintf("qack i=%d res=ok", i))
		}
	}
	noise()
	// a hosted service that the node cannot resolve at retire time (present at probe time), back later
	down := -1
	if n > 0 && h.R.Intn(4) == 0 {
		down = h.R.Intn(n)
		h.Count("guided.unresolvable-at-retire")
		ops = append(ops, fmt.Sprintf("res i=%d up=0", down))
		if n > 1 && h.R.Intn(3) == 0 {
			ops = append(ops, fmt.Sprintf("res i=%d up=0", (down+1)%n))
		}
	}
	if !skip() {
		ops = append(ops, "cmd "+[]string{"retire", "retire", "web_retire"}[h.R.Intn(3)])
	}
	// the master repeats retire once the directory shows the node as retiring, services not yet reported
	if h.R.Intn(3) == 0 {
		h.Count("guided.retire-again-after-reflection")
		ops = append(ops, "reflect", "cmd "+[]string{"retire", "web_retire"}[h.R.Intn(2)])
	}
	if down >= 0 && h.R.Intn(2) == 0 {
		ops = append(ops, fmt.Sprintf("res i=%d up=1", down), "cmd "+[]string{"retire", "web_retire"}[h.R.Intn(2)])
	}
	for _, i := range h.R.Perm(n) {
		noise()
		if !skip() {
			ops = append(ops, fmt.Sprintf("retired i=%d", i))
		}
	}
	noise()
	// time passes (anything the node deferred fires) before the exit, in cases with provider faults
	if g.lossy && h.R.Intn(2) == 0 {
		h.Count("guided.time-passes-after-faults")
		ops = append(ops, "tick")
	}
	if !skip() {
		ops = append(ops, "cmd "+[]string{"exit", "exit", "web_exit"}[h.R.Intn(3)])
	}
	if g.lossy && h.R.Intn(2) == 0 {
		ops = append(ops, "tick")
	}
	noise()
	// late / repeated notifications and commands after the exit
	for k := h.R.Intn(4); k > 0; k-- {
		switch h.R.Intn(5) {
		case 0:
			ops = append(ops, "retired i="+g.idx(n))
		case 1:
			ops = append(ops, "cmd "+[]string{"exit", "web_exit", "retire", "web_retire"}[h.R.Intn(4)])
		case 2:
			ops = append(ops, fmt.Sprintf("stopdone succ=%d", h.R.Intn(2)))
		default:
			ops = append(ops, g.op(n))
		}
	}
	return ops
}

func TestRun(t *testing.T) {
	logger.SetLogLevel(logrus.PanicLevel)
	log.SetOutput(io.Discard)
	builtin.Visit()
	registry.Registry.Build()
	synctest.Test(t, func(t *testing.T) {
		h := hx.Open()
		run := func(op string) { h.Emit(op, hx.Guard(func() string { return exec(op) })) }
		finish := func() {
			h.Close()
			os.Stdout.Sync()
			syscall.Exit(0)
		}
		if ops := hx.ReplayOps(); ops != nil {
			for _, op := range ops {
				run(op)
			}
			finish()
		}
		for _, op := range hx.CorpusOps(hx.Env("VERIF_CORPUS", "corpus/C12")) {
			h.Count("corpus")
			run(op)
		}
		g := &gen{h: h}
		cases := hx.EnvInt("VERIF_N", 1500)
		for c := 0; c < cases; c++ {
			rs, kinds := g.reset()
			run(rs)
			var ops []string
			if h.R.Intn(3) > 0 {
				h.Count("case.guided")
				ops = g.guided(kinds)
			} else {
				h.Count("case.random")
				for k := 1 + h.R.Intn(12); k > 0; k-- {
					ops = append(ops, g.op(len(kinds)))
				}
			}
			if len(ops) > 14 {
				ops = ops[:14]
			}
			for _, op := range ops {
				ws := hx.Words(op)
				key := ws[0]
				if key == "cmd" {
					key += "." + ws[1]
				}
				h.Count("op." + key)
				run(op)
			}
		}
		finish()
	})
}

// TestExhaustive (thorough tier): bounded-exhaustive histories. Every sequence of exactly `length`
// letters is one case (its prefixes are the shorter histories, observed op by op).
func TestExhaustive(t *testing.T) {
	logger.SetLogLevel(logrus.PanicLevel)
	log.SetOutput(io.Discard)
	builtin.Visit()
	registry.Registry.Build()
	synctest.Test(t, func(t *testing.T) {
		h := hx.Open()
		run := func(op string) { h.Emit(op, hx.Guard(func() string { return exec(op) })) }
		core := []string{"cmd retire", "cmd exit", "qack i=0 res=ok", "qack i=1 res=ok", "retired i=0", "retired i=1",
			"stopdone succ=1", "stopdone succ=0"}
		full := append(append([]string{}, core...), "cmd stat", "cmd web_retire", "cmd web_exit", "retired i=ghost",
			"cmd nosuch", "qack i=0 res=no", "tick")
		enum := func(label, reset string, letters []string, length int) {
			idx := make([]int, length)
			n := 0
			for {
				run(reset)
				for _, k := range idx {
					run(letters[k])
				}
				n++
				p := length - 1
				for p >= 0 {
					idx[p]++
					if idx[p] < len(letters) {
						break
					}
					idx[p] = 0
					p--
				}
				if p < 0 {
					break
				}
			}
			h.Stats[fmt.Sprintf("exhaustive.%s.letters%d.len%d", label, len(letters), length)] = n
		}
		enum("raw-raw", "reset k=raw,raw", core, hx.EnvInt("VERIF_EXH_LEN", 6))
		enum("raw-nok", "reset k=raw,nok", full, hx.EnvInt("VERIF_EXH_LEN2", 4))
		enum("raw", "reset k=raw", full, hx.EnvInt("VERIF_EXH_LEN2", 4))
		enum("nok-dead", "reset k=nok,dead", full, 3)
		enum("raw-raw-inline1", "reset k=raw,raw stop=inline1", core, hx.EnvInt("VERIF_EXH_LEN3", 5))
		enum("raw-nok-inline1", "reset k=raw,nok stop=inline1", full, hx.EnvInt("VERIF_EXH_LEN2", 4))
		enum("raw-inline0", "reset k=raw stop=inline0", full, hx.EnvInt("VERIF_EXH_LEN2", 4))
		resLetters := append(append([]string{}, core[:6]...), "res i=0 up=0", "res i=0 up=1", "res i=1 up=0", "cmd web_retire")
		enum("raw-raw-resolve", "reset k=raw,raw lst=PMP", resLetters, hx.EnvInt("VERIF_EXH_LEN3", 5))
		enum("nok-nem", "reset k=nok,nem lst=MPP", full, 3)
		enum("frontend-raw-backend-nok", "reset k=raw,nok lst=FP", full, 3)
		enum("backend-raw-frontend-raw", "reset k=raw,raw lst=TMG stop=inline1", core, hx.EnvInt("VERIF_EXH_LEN2", 4))
		enum("raw-raw-reflect", "reset k=raw,raw", append(append([]string{}, core[:7]...), "reflect", "cmd web_retire"), hx.EnvInt("VERIF_EXH_LEN3", 5))
		enum("raw-nok-reflect-auto", "reset k=raw,nok refl=auto stop=inline1", full, hx.EnvInt("VERIF_EXH_LEN2", 4))
		enum("raw-inline1-slowfirst", "reset k=raw stop=inline1 pd=300,200,100,0,0,0", full, hx.EnvInt("VERIF_EXH_LEN2", 4))
		lossLetters := []string{"cmd retire", "cmd exit", "qack i=0 res=ok", "retired i=0", "stopdone succ=1", "tick", "cmd web_retire"}
		enum("raw-first-refused", "reset k=raw pf=1,0,0,0", lossLetters, hx.EnvInt("VERIF_EXH_LEN3", 5))
		enum("raw-inline1-second-refused", "reset k=raw stop=inline1 pf=0,1,0,1 pd=0,100,0,0", lossLetters, hx.EnvInt("VERIF_EXH_LEN3", 5))
		enum("nok-all-refused", "reset k=nok stop=inline1 pf=1,1,1,1,1", lossLetters, hx.EnvInt("VERIF_EXH_LEN2", 4))
		h.Close()
		os.Stdout.Sync()
		syscall.Exit(0)
	})
}
