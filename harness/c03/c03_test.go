// C03 correspondence harness (bubble-node engine): a whole single-process node
// — front gate-1, back-ends chat-1..chat-3 — assembled from the real components
// inside one testing/synctest bubble; scripted raw pomelo clients; handlers
// (front-local and back-end) that interpret a small script per request: pushes
// before/after completing, bursts, virtual sleeps past the mailbox frame budget,
// timers, worker goroutines entering the service through Service.Post (blocking
// on the full 999-slot task queue while the service is busy), naps on the front.
// Every push / response carries (service, thread, target client, counter).
//
// ops (one per line):
//
//	reset n=<clients> [slow=1] [extra=<k>]  settle + close the previous clients, open n new ones (slow=1: clients that can be stalled)
//	stall c=<i> / resume c=<i>              the client stops / resumes reading its connection
//	fault c=<i> n=<k> partial=<0|1>         the next k writes on the client's connection fail with a timeout net.Error (after half the packet if partial)
//	req c=<i> to=<svc> r=<id>/<script> ...  one frame with one or more requests to service <svc> (0 gate-1, k chat-k)
//	go ms=<d>                               let d ms of virtual time pass
//	close c=<i>                             the client closes its connection
//	ack c=<i> [hs=1]                        the client sends one more HandshakeAck (hs=1: a whole second handshake) on its working connection
//	lag c=<i> n=<k> ms=<d> [skip=<j>]       after j more writes, the next k writes on the client's connection each take d ms (a slow link)
//
// reset ... bye=1: the front has on-close callbacks (SetOnCloseHandler for even clients, AddOnSessionOnClose for odd ones) that
// push a "left" notice (one PushMessageByIds) to the other observed clients when an observed client's session is removed.
//	settle                                  let 2 s pass: everything under way must have arrived
//
// script = actions joined by ',':
//
//	p<c>          push to client c                 P<c>x<n>      n pushes to client c
//	p<c>b<bytes>  push with a payload padded by <bytes> rb<bytes>  response padded by <bytes>
//	m             one PushMessageByIds to all      r             complete the request
//	M             one PushMessageByIds to every connection of the front (reset extra=<k>: k unobserved connections
//	              listed between the observed clients: client 0 first, client 1 at #256, client 2 at #257, the last client last)
//	S             store a value in the session without pushing it (BackSession.Set: dirty)
//	s<ms>         time.Sleep on the service        t<ms>c<c>x<n> timer after ms: n pushes to c
//	w<c>x<n>      worker goroutine: n posted pushes W<c>x<n>     the same, the last post completes the request
//	n<ms>         (back-end) make the front sleep ms inside its mailbox run
//	u<c>          push to client c of a value the serializer rejects (NaN): travels with an empty body, its ids in the route
//	z / Z         noise: push to an unknown session id / to an unknown front-end (no observable effect)
//
// observation (everything since the previous op; "-" when empty):
//
//	I<svc>.<thr>=<c>.<n><k>,...   what worker <thr> handed to Post, in Post order
//	L<svc>=d<c>.<n><k>,x<thr>.<c>.<n><k>,...   what the service goroutine issued (d) / executed for a worker (x), in order
//	A<c>=<svc>.<thr>.<n><k>,...   what client c read, in arrival order (k: p push, r response)
//	open=<c>,<c>,...              (settle) the clients that are still open
//	closed=<c>,...                the connections the server ended since the previous op
package c03

import (
	"encoding/json"
	"fmt"
	"math"
	"runtime"
	"sort"
	"net"
	"strconv"
	"strings"
	"sync"
	"sync/atomic"
	"testing"
	"testing/synctest"
	"time"

	"cell2verif/hx"
	"cell2verif/node"

	"github.com/dfklegend/cell2/actorex/mailbox"
	as "github.com/dfklegend/cell2/actorex/service"
	api "github.com/dfklegend/cell2/apimapper"
	"github.com/dfklegend/cell2/apimapper/apientry"
	"github.com/dfklegend/cell2/node/app"
	"github.com/dfklegend/cell2/node/builtin/msgs"
	"github.com/dfklegend/cell2/node/client/impls"
	scs "github.com/dfklegend/cell2/node/client/session"
	"github.com/dfklegend/cell2/node/client/impls/pomelo"
	"github.com/dfklegend/cell2/node/service"
	"github.com/dfklegend/cell2/pomelonet/server/session"
	"github.com/dfklegend/cell2/pomelonet/common/conn/message"
)

var svcNames = []string{"gate-1", "chat-1", "chat-2", "chat-3"}

func svcIndex(name string) int {
	for i, s := range svcNames {
		if s == name {
			return i
		}
	}
	return -1
}

// Tag is the payload of every push and response.
type Tag struct {
	S int    `json:"s"` // issuing service
	T int    `json:"t"` // thread: 0 service goroutine, >0 worker
	C int    `json:"c"` // target client (index in the case)
	N int    `json:"n"` // per (s,t,c) counter
	K string `json:"k"` // p | r
	P string `json:"z,omitempty"` // padding: makes the packet as large as the script asks (ids stay in the payload head)
}

// pad returns n pseudo-random printable bytes (deterministic in the ids, incompressible enough).
func pad(n int, seed int) string {
	if n <= 0 {
		return ""
	}
	b := make([]byte, n)
	x := uint32(seed)*2654435761 + 12345
	for i := range b {
		x = x*1664525 + 1013904223
		b[i] = "abcdefghijklmnopqrstuvwxyzABCDEFGHIJKLMNOPQRSTUVWXYZ0123456789-_"[x>>26]
	}
	return string(b)
}

// Arg is the payload of a request.
type Arg struct {
	Script string `json:"s"`
	C      int    `json:"c"` // the requesting client
}

// ------------------------------------------------------------------ case state shared with the handlers

type caseState struct {
	mu      sync.Mutex
	nets    []uint32          // client index -> net id
	bcast   []uint32          // broadcast list: the observed clients spread among the extra (unobserved) connections
	ctr     map[[3]int]int    // (svc, thr, client) -> next counter
	nextThr [8]int            // per service: next worker id
	workers []string          // log names of the workers spawned in this case
	bye     bool              // on-close callbacks of the front push a notice to the other clients
}

var cs = &caseState{ctr: map[[3]int]int{}}

func (c *caseState) next(svc, thr, cl int) int {
	c.mu.Lock()
	defer c.mu.Unlock()
	k := [3]int{svc, thr, cl}
	n := c.ctr[k]
	c.ctr[k] = n + 1
	return n
}

func (c *caseState) netOf(cl int) (uint32, bool) {
	c.mu.Lock()
	defer c.mu.Unlock()
	if cl < 0 || cl >= len(c.nets) {
		return 0, false
	}
	return c.nets[cl], true
}

func (c *caseState) bcastIds() []uint32 {
	c.mu.Lock()
	defer c.mu.Unlock()
	return append([]uint32(nil), c.bcast...)
}

func (c *caseState) allNets() []uint32 {
	c.mu.Lock()
	defer c.mu.Unlock()
	return append([]uint32(nil), c.nets...)
}

func (c *caseState) newWorker(svc int) int {
	c.mu.Lock()
	defer c.mu.Unlock()
	c.nextThr[svc]++
	t := c.nextThr[svc]
	c.workers = append(c.workers, fmt.Sprintf("W%d.%d", svc, t))
	return t
}

// ------------------------------------------------------------------ issuing

// issue hands one item to the framework; runs on the service goroutine.
func issue(ns *service.NodeService, t Tag, cb apientry.HandlerCBFunc) {
	if t.K == "r" {
		apientry.CheckInvokeCBFunc(cb, nil, &t)
		return
	}
	if net, ok := cs.netOf(t.C); ok {
		app.PushMessageById(ns, "gate-1", net, "t", &t)
	}
}

// direct: code on the service goroutine issues an item now.
func direct(ns *service.NodeService, svc, cl int, k string, cb apientry.HandlerCBFunc, size ...int) {
	t := Tag{S: svc, T: 0, C: cl, N: cs.next(svc, 0, cl), K: k}
	if len(size) > 0 && size[0] >= 8 {
		t.P = pad(size[0], t.N*31+cl)
	}
	node.Record(ns.Name, fmt.Sprintf("d%d.%d%s", cl, t.N, k))
	issue(ns, t, cb)
}

// posted: worker thr hands a closure issuing the item to Service.Post.
func posted(ns *service.NodeService, svc, thr, cl int, k string, cb apientry.HandlerCBFunc) {
	t := Tag{S: svc, T: thr, C: cl, N: cs.next(svc, thr, cl), K: k}
	node.Record(fmt.Sprintf("W%d.%d", svc, thr), fmt.Sprintf("%d.%d%s", cl, t.N, k))
	ns.Post(func() {
		node.Record(ns.Name, fmt.Sprintf("x%d.%d.%d%s", thr, cl, t.N, k))
		issue(ns, t, cb)
	})
}

func atoi(s string) int {
	n, _ := strconv.Atoi(s)
	return n
}

// two numbers around a separator letter: "3x100" -> 3, 100
func pair(s string, sep byte) (int, int) {
	i := strings.IndexByte(s, sep)
	if i < 0 {
		return atoi(s), 1
	}
	return atoi(s[:i]), atoi(s[i+1:])
}

// interpret runs a script on the service goroutine.
func interpret(ns *service.NodeService, svc int, script string, reqClient int, cb apientry.HandlerCBFunc, sess scs.IServerSession) {
	for _, a := range strings.Split(script, ",") {
		if a == "" {
			continue
		}
		switch a[0] {
		case 'p':
			cl, size := pair(a[1:], 'b')
			direct(ns, svc, cl, "p", nil, size)
		case 'P':
			cl, n := pair(a[1:], 'x')
			for i := 0; i < n; i++ {
				direct(ns, svc, cl, "p", nil)
			}
		case 'm':
			// PushMessageByIds: one message to every client; each client's stream gets its own counter
			nets := cs.allNets()
			tags := make([]int, len(nets))
			for cl := range nets {
				tags[cl] = cs.next(svc, 0, cl)
				node.Record(ns.Name, fmt.Sprintf("d%d.%dp", cl, tags[cl]))
			}
			app.PushMessageByIds(ns, "gate-1", nets, "t", &Multi{S: svc, N: tags})
		case 'S':
			// the handler stores something in the session WITHOUT pushing it (BackSession: marks it dirty)
			if sess != nil {
				sess.Set("note", cs.next(svc, 99, reqClient))
			}
		case 'M':
			// broadcast: ONE PushMessageByIds to every connection of the front (observed clients + the extra ones)
			ids := cs.bcastIds()
			nets := cs.allNets()
			if len(ids) == 0 {
				ids = nets
			}
			tags := make([]int, len(nets))
			for cl := range nets {
				tags[cl] = cs.next(svc, 0, cl)
				node.Record(ns.Name, fmt.Sprintf("d%d.%dp", cl, tags[cl]))
			}
			app.PushMessageByIds(ns, "gate-1", ids, "t", &Multi{S: svc, N: tags})
		case 'r':
			_, size := pair(a[1:], 'b')
			direct(ns, svc, reqClient, "r", cb, size)
		case 's':
			time.Sleep(time.Duration(atoi(a[1:])) * time.Millisecond)
		case 't':
			ci := strings.IndexByte(a, 'c')
			if ci < 0 {
				continue
			}
			ms := atoi(a[1:ci])
			cl, n := pair(a[ci+1:], 'x')
			ns.GetRunService().GetTimerMgr().After(time.Duration(ms)*time.Millisecond, func(args ...interface{}) {
				for i := 0; i < n; i++ {
					direct(ns, svc, cl, "p", nil)
				}
			})
		case 'w', 'W':
			cl, n := pair(a[1:], 'x')
			thr := cs.newWorker(svc)
			final := a[0] == 'W'
			go func() {
				for i := 0; i < n; i++ {
					posted(ns, svc, thr, cl, "p", nil)
				}
				if final {
					posted(ns, svc, thr, reqClient, "r", cb)
				}
			}()
		case 'u':
			// a push whose value the client serializer cannot marshal (json: NaN): the framework ignores the
			// marshal error and sends the push with an empty body; (service, client, counter) travel in the route
			cl := atoi(a[1:])
			if net, ok := cs.netOf(cl); ok {
				n := cs.next(svc, 0, cl)
				node.Record(ns.Name, fmt.Sprintf("d%d.%dp", cl, n))
				app.PushMessageById(ns, "gate-1", net, fmt.Sprintf("u.%d.%d.%d", svc, cl, n), &Unmarshalable{X: math.NaN()})
			}
		case 'z':
			// noise: a push to a session id nobody has — dropped by the front, must not disturb anything
			app.PushMessageById(ns, "gate-1", 0xFFFFF0, "t", &Tag{S: svc, C: -1, K: "p"})
		case 'Z':
			// noise: a push to a front-end that does not exist — refused on the issuing side
			app.PushMessageById(ns, "gate-9", 1, "t", &Tag{S: svc, C: -1, K: "p"})
		case 'n':
			if svc != 0 {
				if n := node.Current(); n != nil {
					ns.NotifyEx(n.PID("gate-1"), "rpc.nap", &msgs.Kick{SessionId: uint32(atoi(a[1:]))})
				}
			}
		}
	}
}

// Multi is the payload of a PushMessageByIds push: N[i] is the counter for client i.
type Multi struct {
	S int   `json:"s"`
	N []int `json:"m"`
}

// Unmarshalable is a push value encoding/json rejects.
type Unmarshalable struct {
	X float64 `json:"x"`
}

// onBye is the front's on-close callback (runs on the front's goroutine inside ClientSessions.RemoveSession):
// one PushMessageByIds telling the other observed clients that this one left.
func onBye(global bool) func(ns *service.NodeService, fs *scs.FrontSession) {
	return func(ns *service.NodeService, fs *scs.FrontSession) {
		cs.mu.Lock()
		bye := cs.bye
		nets := append([]uint32(nil), cs.nets...)
		cs.mu.Unlock()
		if !bye {
			return
		}
		idx := -1
		for i, id := range nets {
			if id == fs.GetNetId() {
				idx = i
			}
		}
		if idx < 0 || (idx%2 == 0) != global {
			return
		}
		tags := make([]int, len(nets))
		var ids []uint32
		for cl := range nets {
			if cl == idx {
				tags[cl] = -1
				continue
			}
			tags[cl] = cs.next(0, 0, cl)
			node.Record(ns.Name, fmt.Sprintf("d%d.%dp", cl, tags[cl]))
			ids = append(ids, nets[cl])
		}
		if len(ids) > 0 {
			app.PushMessageByIds(ns, "gate-1", ids, "t", &Multi{S: 0, N: tags})
		}
	}
}

// Zoo is the client-facing entry of every service type.
type Zoo struct {
	api.APIEntry
}

func (e *Zoo) Run(ctx *impls.HandlerContext, a *Arg, cb apientry.HandlerCBFunc) {
	ns := node.NSOf(ctx)
	interpret(ns, svcIndex(ns.Name), a.Script, a.C, cb, ctx.Session)
}

// GateRemote is the service-to-service entry of the front: rpc.nap makes the
// front's goroutine sleep inside its mailbox run (notify-shaped).
type GateRemote struct {
	api.APIEntry
}

func (e *GateRemote) Nap(ctx *as.RemoteContext, m *msgs.Kick) {
	time.Sleep(time.Duration(m.SessionId) * time.Millisecond)
}

// ------------------------------------------------------------------ harness

type world struct {
	n       *node.Node
	clients []cli
	open    []bool
	bound   []int
	extra   []net.Conn // client ends of the unobserved connections
}

func (w *world) reset(nc int, slow bool, extra int, bye bool) string {
	cs.mu.Lock()
	cs.bye = false
	cs.mu.Unlock()
	if len(w.clients) > 0 {
		w.n.Advance(2 * time.Second)
	}
	for i, c := range w.clients {
		if w.open[i] {
			c.Close()
		}
	}
	for _, e := range w.extra {
		e.Close()
	}
	w.extra = nil
	if len(w.clients) > 0 {
		w.n.Advance(50 * time.Millisecond)
	}
	for _, s := range svcNames {
		w.n.TakeLog(s)
	}
	cs.mu.Lock()
	for _, wn := range cs.workers {
		w.n.TakeLog(wn)
	}
	cs.nets = nil
	cs.bcast = nil
	cs.ctr = map[[3]int]int{}
	cs.nextThr = [8]int{}
	cs.workers = nil
	cs.mu.Unlock()
	w.clients, w.open, w.bound = nil, nil, nil
	nets := []uint32{}
	for i := 0; i < nc; i++ {
		var c cli
		if slow {
			c = newGClient(w.n, "gate-1")
		} else {
			c = w.n.Connect("gate-1")
		}
		if !c.Open() {
			return "err open"
		}
		c.Take()
		w.clients = append(w.clients, c)
		w.open = append(w.open, true)
		w.bound = append(w.bound, 0)
		nets = append(nets, c.NetId())
	}
	// unobserved connections: real sessions of the front that nobody reads (no handshake needed to be pushed to)
	var xs []uint32
	var sesss []*session.ClientSession
	if extra > 0 {
		ns := w.n.Service("gate-1")
		for i := 0; i < extra; i++ {
			srvEnd, cliEnd := net.Pipe()
			cfg := session.NewSessionConfig(nil)
			cfg.Impl = pomelo.NewSessionsImpl(ns.GetRunService().GetScheduler(), w.n.Sessions("gate-1"))
			sess := session.NewClientSession(&pipeConn{Conn: srvEnd}, cfg)
			sess.Handle()
			w.extra = append(w.extra, cliEnd)
			sesss = append(sesss, sess)
			if i%32 == 31 {
				synctest.Wait()
			}
		}
		synctest.Wait()
		for _, se := range sesss {
			xs = append(xs, se.GetId())
		}
	}
	// broadcast list: client 0, extras..., client 1 at #256, client 2 at #257, extras..., last client last
	var bl []uint32
	if extra > 0 {
		bl = append(bl, nets[0])
		xi := 0
		mid := nets[1 : len(nets)-1]
		if len(nets) == 1 {
			mid = nil
		}
		for len(bl) < 255 && xi < len(xs) {
			bl = append(bl, xs[xi])
			xi++
		}
		bl = append(bl, mid...)
		for xi < len(xs) {
			bl = append(bl, xs[xi])
			xi++
		}
		if len(nets) > 1 {
			bl = append(bl, nets[len(nets)-1])
		}
	}
	cs.mu.Lock()
	cs.nets = nets
	cs.bcast = bl
	cs.bye = bye
	cs.mu.Unlock()
	if bye {
		w.n.RunOn("gate-1", func(ns *service.NodeService) {
			for i, id := range nets {
				if i%2 == 1 {
					impls.AddOnSessionOnClose(ns, id, onBye(false))
				}
			}
		})
	}
	return fmt.Sprintf("ok n=%d", nc)
}

// collect renders everything that happened since the previous op.
func (w *world) collect() string {
	var parts []string
	cs.mu.Lock()
	workers := append([]string(nil), cs.workers...)
	cs.mu.Unlock()
	sort.Strings(workers)
	for _, wn := range workers {
		if l := w.n.TakeLog(wn); len(l) > 0 {
			parts = append(parts, "I"+wn[1:]+"="+strings.Join(l, ","))
		}
	}
	for i, s := range svcNames {
		if l := w.n.TakeLog(s); len(l) > 0 {
			parts = append(parts, fmt.Sprintf("L%d=%s", i, strings.Join(l, ",")))
		}
	}
	for i, c := range w.clients {
		var items []string
		for _, m := range c.Take() {
			if m.Kind != "push" && m.Kind != "response" {
				continue
			}
			k := "p"
			if m.Kind == "response" {
				k = "r"
			}
			if m.Err {
				items = append(items, "?")
				continue
			}
			if m.Kind == "push" && strings.HasPrefix(m.Route, "u.") {
				// a push that travelled with an empty body: ids in the route
				f := strings.Split(m.Route, ".")
				if len(f) != 4 || atoi(f[2]) != i || len(m.Data) != 0 {
					items = append(items, "?")
				} else {
					items = append(items, fmt.Sprintf("%d.0.%dp", atoi(f[1]), atoi(f[3])))
				}
				continue
			}
			var mu Multi
			if json.Unmarshal(m.Data, &mu) == nil && mu.N != nil {
				if i < len(mu.N) {
					items = append(items, fmt.Sprintf("%d.0.%d%s", mu.S, mu.N[i], k))
				} else {
					items = append(items, "?")
				}
				continue
			}
			var t Tag
			if json.Unmarshal(m.Data, &t) != nil || t.K != k || t.C != i {
				items = append(items, "?")
				continue
			}
			items = append(items, fmt.Sprintf("%d.%d.%d%s", t.S, t.T, t.N, k))
		}
		if len(items) > 0 {
			parts = append(parts, fmt.Sprintf("A%d=%s", i, strings.Join(items, ",")))
		}
	}
	// connections the server ended (e.g. after a failed write): reported once
	var dead []string
	for i, c := range w.clients {
		if w.open[i] && c.Closed() {
			w.open[i] = false
			dead = append(dead, strconv.Itoa(i))
		}
	}
	if len(dead) > 0 {
		parts = append(parts, "closed="+strings.Join(dead, ","))
	}
	if len(parts) == 0 {
		return "-"
	}
	return strings.Join(parts, " ")
}

func (w *world) exec(op string) string {
	ws := hx.Words(op)
	if len(ws) == 0 {
		return "bad-op"
	}
	switch ws[0] {
	case "reset":
		nc := hx.KVInt(ws, "n")
		if nc < 1 || nc > 8 {
			return "bad-op"
		}
		extra := hx.KVInt(ws, "extra")
		if extra > 400 {
			return "bad-op"
		}
		return w.reset(nc, hx.KVInt(ws, "slow") == 1, extra, hx.KVInt(ws, "bye") == 1)
	case "ack":
		ci := hx.KVInt(ws, "c")
		if ci >= len(w.clients) || !w.open[ci] {
			return "bad-op"
		}
		if hx.KVInt(ws, "hs") == 1 {
			w.clients[ci].Handshake()
		}
		w.clients[ci].Ack()
		return w.collect()
	case "lag":
		ci := hx.KVInt(ws, "c")
		if ci >= len(w.clients) || !w.open[ci] {
			return "bad-op"
		}
		g, ok := w.clients[ci].(*gclient)
		ms := hx.KVInt(ws, "ms")
		if !ok || ms < 1 || ms > 1000 {
			return "bad-op"
		}
		g.lag(hx.KVInt(ws, "skip"), hx.KVInt(ws, "n"), time.Duration(ms)*time.Millisecond)
		return "-"
	case "fault":
		ci := hx.KVInt(ws, "c")
		if ci >= len(w.clients) || !w.open[ci] {
			return "bad-op"
		}
		g, ok := w.clients[ci].(*gclient)
		if !ok {
			return "bad-op"
		}
		g.fault(hx.KVInt(ws, "n"), hx.KVInt(ws, "partial") == 1)
		return "-"
	case "stall", "resume":
		ci := hx.KVInt(ws, "c")
		if ci >= len(w.clients) || !w.open[ci] {
			return "bad-op"
		}
		g, ok := w.clients[ci].(*gclient)
		if !ok {
			return "bad-op"
		}
		if ws[0] == "stall" {
			g.stall()
			return "-"
		}
		g.resume()
		return w.collect()
	case "req":
		ci, to := hx.KVInt(ws, "c"), hx.KVInt(ws, "to")
		if ci >= len(w.clients) || to >= len(svcNames) || !w.open[ci] {
			return "bad-op"
		}
		c := w.clients[ci]
		if to > 0 && w.bound[ci] != to {
			w.bound[ci] = to
			w.n.RunOn("gate-1", func(ns *service.NodeService) {
				if fs := w.n.Sessions("gate-1").GetSession(c.NetId()); fs != nil {
					fs.Set("chatid", svcNames[to])
				}
			})
		}
		route := "chat.zoo.run"
		if to == 0 {
			route = "gate.zoo.run"
		}
		var frame []byte
		for _, t := range ws[1:] {
			if !strings.HasPrefix(t, "r=") {
				continue
			}
			i := strings.IndexByte(t, '/')
			if i < 0 {
				return "bad-op"
			}
			id := atoi(t[2:i])
			body, _ := json.Marshal(&Arg{Script: t[i+1:], C: ci})
			frame = append(frame, c.Packet(&message.Message{Type: message.Request, ID: uint(id), Route: route, Data: body})...)
		}
		if len(frame) == 0 {
			return "bad-op"
		}
		c.SendRaw(frame)
		return w.collect()
	case "go":
		ms := hx.KVInt(ws, "ms")
		if ms < 1 || ms > 40000 {
			return "bad-op"
		}
		w.n.Advance(time.Duration(ms) * time.Millisecond)
		return w.collect()
	case "close":
		ci := hx.KVInt(ws, "c")
		if ci >= len(w.clients) || !w.open[ci] {
			return "bad-op"
		}
		obs := w.collect()
		w.open[ci] = false
		w.clients[ci].Close()
		w.clients[ci].Take()
		return obs
	case "settle":
		w.n.Advance(2 * time.Second)
		obs := w.collect()
		var o []string
		for i := range w.clients {
			if w.open[i] && !w.clients[i].Closed() {
				o = append(o, strconv.Itoa(i))
			}
		}
		if obs == "-" {
			obs = ""
		} else {
			obs += " "
		}
		return obs + "open=" + strings.Join(o, ",")
	}
	return "bad-op"
}

var yieldCtr atomic.Uint32
var pauses atomic.Int64

// reach: what the load actually did to the machinery (reported in the generator histogram)
func (w *world) reach(h *hx.T) {
	for _, s := range svcNames {
		if ns := w.n.Service(s); ns != nil {
			if len(ns.GetRunService().GetScheduler().GetChanTask()) >= 999 {
				h.Count("reach:task-queue-full:" + s)
			}
		}
	}
	if p := pauses.Swap(0); p > 0 {
		h.Stats["reach:mailbox-smoothing-pauses"] += int(p)
	}
}

func TestRun(t *testing.T) {
	synctest.Test(t, func(t *testing.T) {
		h := hx.Open()
		node.RegisterHandler("gate", &Zoo{}, "zoo")
		node.RegisterHandler("chat", &Zoo{}, "zoo")
		node.RegisterRemote("gate", &GateRemote{}, "rpc")
		node.RouteBySessionKey("chat", "chatid")
		// perturb the interleaving at the mailbox's yield points (hook H1): every few
		// atomic steps the goroutine gives up its processor
		mailbox.VerifYield = func(point string) {
			if point == "bp.cas" {
				pauses.Add(1) // a mailbox run exceeded its frame budget: smoothing pause
			}
			if yieldCtr.Add(1)%5 == 0 {
				runtime.Gosched()
			}
		}
		n := node.Start(node.Options{Services: []node.Svc{{Name: "gate-1", Type: "gate", Front: true},
			{Name: "chat-1", Type: "chat"}, {Name: "chat-2", Type: "chat"}, {Name: "chat-3", Type: "chat"}}})
		w := &world{n: n}
		n.RunOn("gate-1", func(ns *service.NodeService) { n.Sessions("gate-1").SetOnCloseHandler(onBye(true)) })
		run := func(op string) {
			obs := hx.Guard(func() string { return w.exec(op) })
			w.reach(h)
			if n := strings.Count(obs, ","); n >= 1000 {
				h.Count("reach:op-with-1000+-records")
			}
			if strings.HasPrefix(op, "resume") {
				// the backlog released by a client that reads again: > 10000 means chSend (9999) was full and a service goroutine was blocked on it
				for _, sec := range strings.Fields(obs) {
					if strings.HasPrefix(sec, "A") && strings.Count(sec, ",") >= 10000 {
						h.Count("reach:chSend-full-sender-blocked")
					}
				}
			}
			h.Emit(op, obs)
			if strings.HasPrefix(op, "reset") || strings.HasPrefix(op, "settle") {
				h.Flush() // if the code under test deadlocks / dies later, what was observed so far is still judged
			}
		}
		if ops := hx.ReplayOps(); ops != nil {
			for _, op := range ops {
				run(op)
			}
			node.Finish(h)
		}
		for _, op := range hx.CorpusOps(hx.Env("VERIF_DIR", "/verif") + "/harness/corpus/C03") {
			h.Count("corpus")
			run(op)
		}
		g := &gen{h: h}
		for _, op := range g.sweep() {
			run(op)
		}
		budget := hx.EnvInt("VERIF_N", 400)
		for h.N < budget {
			for _, op := range g.genCase() {
				run(op)
			}
		}
		node.Finish(h)
	})
}
