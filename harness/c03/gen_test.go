package c03

import (
	"fmt"
	"strings"

	"cell2verif/hx"
)

// gen draws cases from the single PRNG h.R.
type gen struct {
	h    *hx.T
	big  int // number of big-burst cases generated so far
	nreq map[int]int
}

func (g *gen) id(c int) int {
	g.nreq[c]++
	return g.nreq[c]
}

// script draws a handler script: the response sits at a random place among
// pushes to random clients; `lead` ms of sleep in front (so that the requests of
// one round start at the same virtual instant).
func (g *gen) script(nc, self, to, lead int, size int) string {
	r := g.h.R
	var a []string
	if lead > 0 {
		a = append(a, fmt.Sprintf("s%d", lead))
	}
	k := 1 + r.Intn(size)
	respAt := r.Intn(k + 1)
	workerFinal := r.Intn(8) == 0
	for i := 0; i <= k; i++ {
		if i == respAt {
			if workerFinal {
				a = append(a, fmt.Sprintf("W%dx%d", r.Intn(nc), 1+r.Intn(6)))
				g.h.Count("act:worker-completes")
			} else {
				if r.Intn(12) == 0 {
					a = append(a, g.sized("r"))
				} else {
					a = append(a, "r")
				}
				switch {
				case i == 0:
					g.h.Count("resp:first")
				case i == k:
					g.h.Count("resp:last")
				default:
					g.h.Count("resp:middle")
				}
			}
			continue
		}
		tgt := self
		if r.Intn(3) == 0 {
			tgt = r.Intn(nc)
		}
		switch x := r.Intn(20); {
		case x < 9:
			if r.Intn(15) == 0 {
				a = append(a, g.sized(fmt.Sprintf("p%d", tgt)))
			} else if r.Intn(12) == 0 {
				a = append(a, fmt.Sprintf("u%d", tgt))
				g.h.Count("act:push-unmarshalable")
			} else {
				a = append(a, fmt.Sprintf("p%d", tgt))
			}
			g.h.Count("act:push")
		case x < 12:
			a = append(a, fmt.Sprintf("P%dx%d", tgt, 2+r.Intn(30)))
			g.h.Count("act:burst-small")
		case x < 13:
			a = append(a, "m")
			g.h.Count("act:multicast")
		case x < 15:
			a = append(a, fmt.Sprintf("s%d", g.h.Pick(1, 9, 10, 11, 19, 20, 21, 25, 40)))
			g.h.Count("act:sleep")
		case x < 17:
			a = append(a, fmt.Sprintf("t%dc%dx%d", g.h.Pick(1, 5, 10, 21, 30), tgt, 1+r.Intn(4)))
			g.h.Count("act:timer")
		case x < 19:
			a = append(a, fmt.Sprintf("w%dx%d", tgt, 1+r.Intn(8)))
			g.h.Count("act:worker")
		case x < 20 && r.Intn(3) == 0:
			a = append(a, []string{"z", "Z"}[r.Intn(2)])
			g.h.Count("act:noise")
		case x < 20 && r.Intn(2) == 0:
			a = append(a, "S")
			g.h.Count("act:session-set")
		default:
			if to != 0 {
				a = append(a, fmt.Sprintf("n%d", g.h.Pick(5, 21, 25)))
				g.h.Count("act:nap-front")
			} else {
				a = append(a, fmt.Sprintf("p%d", tgt))
			}
		}
	}
	return strings.Join(a, ",")
}

// sweep: every number of pushes 0..4 x every placement of the response among
// them, for the front and for a back-end as issuer, alone and with a second
// issuer active — deterministic, run first
func (g *gen) sweep() []string {
	var ops []string
	for _, to := range []int{0, 1} {
		for k := 0; k <= 4; k++ {
			for at := 0; at <= k; at++ {
				var a []string
				for i := 0; i <= k; i++ {
					if i == at {
						a = append(a, "r")
					}
					if i < k {
						a = append(a, "p0")
					}
				}
				g.h.Count("sweep")
				ops = append(ops, "reset n=1")
				if (k+at)%2 == 1 {
					ops = append(ops, fmt.Sprintf("req c=0 to=%d r=1/s1,P0x3,r,p0", 2+to))
					ops = append(ops, fmt.Sprintf("req c=0 to=%d r=2/s1,%s", to, strings.Join(a, ",")), "go ms=2")
				} else {
					ops = append(ops, fmt.Sprintf("req c=0 to=%d r=1/%s", to, strings.Join(a, ",")))
				}
				ops = append(ops, "settle")
			}
		}
	}
	for _, to := range []int{0, 1} {
		for _, big := range []int{4095, 4096, 4097, 8192, 65536} {
			g.h.Count("sweep:payload-size")
			ops = append(ops, "reset n=2 slow=1", "stall c=0",
				fmt.Sprintf("req c=0 to=%d r=1/p0,p0,p0b%d,p0,p0,rb%d,p0,p0b64,p0", to, big, big),
				fmt.Sprintf("req c=1 to=%d r=1/p0,p1b%d,rb%d,p1", 2+to, big, big),
				"go ms=3", "resume c=0", "go ms=3", "settle")
		}
	}
	// a value the serializer rejects, pushed before / after the response (empty body, same path, same order)
	for _, to := range []int{0, 1} {
		g.h.Count("sweep:unmarshalable")
		ops = append(ops, "reset n=2", fmt.Sprintf("req c=0 to=%d r=1/p0,u0,r,u0,u1,p0", to), "settle")
	}
	ops = append(ops, g.busyCloseCase(3, 0, 1, 0, 2)...)
	ops = append(ops, g.busyCloseCase(4, 1, 3, 2, 0)...)
	ops = append(ops, g.oddClientCase(0, 1, 1, false, 0, 1)...)
	ops = append(ops, g.oddClientCase(1, 0, 2, true, 2, 2)...)
	ops = append(ops, g.holdCase(1, 32000)...)
	ops = append(ops, g.setCase(1)...)
	ops = append(ops, g.setCase(2)...)
	ops = append(ops, g.bcastCase(0, 296)...)
	ops = append(ops, g.bcastCase(1, 296)...)
	ops = append(ops, g.faultCase(1, 0, true, 1, false, 6)...)
	ops = append(ops, g.faultCase(0, 2, true, 2, true, 9)...)
	ops = append(ops, g.faultCase(2, 1, false, 1, false, 12)...)
	ops = append(ops, g.stallCase(0, 2, 10040, 60)...)
	ops = append(ops, g.stallCase(1, 0, 10040, 60)...)
	ops = append(ops, g.slowDrainCase(0, 10040, 0, 3)...)
	ops = append(ops, g.slowDrainCase(2, 10100, 2, 2)...)
	return ops
}

// a client stops reading while service `to` issues more than chSend holds
// (9999 + the packet in the writer's hand) towards it, the response somewhere
// behind the 10000th message: the session's writer blocks in conn.Write, chSend
// fills up and the front's goroutine blocks in pushToSend (front-local issuer: in
// the middle of the handler; back-end issuer: in the middle of its mailbox run).
// A second client keeps reading and talks to service `to2` meanwhile (isolation;
// its pushes towards the stalled client queue up behind the block).  Then the
// client reads again and everything must arrive, in issue order.
func (g *gen) stallCase(to, to2, n, tail int) []string {
	g.h.Count("case:stalled-client")
	g.h.Count(fmt.Sprintf("stalled-client:issuer=%d", to))
	g.nreq = map[int]int{}
	ops := []string{"reset n=2 slow=1", "stall c=0"}
	ops = append(ops, fmt.Sprintf("req c=0 to=%d r=%d/P0x%d,r,P0x%d,p1", to, g.id(0), n, tail))
	ops = append(ops, fmt.Sprintf("req c=1 to=%d r=%d/p1,P0x30,r,p1,p0", to2, g.id(1)))
	ops = append(ops, "go ms=5", "resume c=0", "go ms=5", "settle")
	return ops
}

// a client that stopped reading until more than the send queue holds is outstanding, then reads again but
// SLOWLY (its link holds the next few packets up for some ms each: the writer sits in conn.Write with a packet
// in its hand and one free slot in chSend) while the same service issues more towards it: what is issued now
// must queue up behind everything that is still waiting, wherever that waits
func (g *gen) slowDrainCase(to, n, skip, k int) []string {
	g.h.Count("case:stalled-client-slow-drain")
	g.nreq = map[int]int{}
	ops := []string{"reset n=2 slow=1", "stall c=0"}
	ops = append(ops, fmt.Sprintf("req c=0 to=%d r=%d/P0x%d,r,P0x40,p1", to, g.id(0), n))
	ops = append(ops, fmt.Sprintf("lag c=0 n=%d ms=5 skip=%d", k, skip), "resume c=0")
	ops = append(ops, fmt.Sprintf("req c=1 to=%d r=%d/p0,P0x4,r,p0,p1", to, g.id(1)))
	ops = append(ops, "go ms=3", fmt.Sprintf("req c=1 to=%d r=%d/p0,r", to, g.id(1)), "go ms=50", "settle")
	return ops
}

// a write on the client's connection fails with a timeout error (once or a few
// times in a row, possibly after half the packet) while later packets for the
// same client are already queued: the session must either end (what the code
// does: the client keeps an initial segment) or go on in order — never re-queue
// the packet behind the others.  stalled: the failing write is the second one,
// with everything else provably queued behind it.
func (g *gen) faultCase(to, to2 int, stalled bool, n int, partial bool, k int) []string {
	g.h.Count("case:write-fault")
	g.h.Count(fmt.Sprintf("write-fault:stalled=%v,partial=%v", stalled, partial))
	g.nreq = map[int]int{}
	pb := 0
	if partial {
		pb = 1
	}
	ops := []string{"reset n=2 slow=1"}
	if stalled {
		ops = append(ops, "stall c=0")
		ops = append(ops, fmt.Sprintf("req c=0 to=%d r=%d/P0x%d,r,P0x%d,p1", to, g.id(0), k, k/4))
		ops = append(ops, fmt.Sprintf("fault c=0 n=%d partial=%d", n, pb), "resume c=0")
	} else {
		ops = append(ops, fmt.Sprintf("req c=0 to=%d r=%d/p0,r", to, g.id(0)))
		ops = append(ops, fmt.Sprintf("fault c=0 n=%d partial=%d", n, pb))
		ops = append(ops, fmt.Sprintf("req c=0 to=%d r=%d/P0x%d,r,P0x%d,p1", to, g.id(0), k, k/4))
	}
	ops = append(ops, fmt.Sprintf("req c=1 to=%d r=%d/p0,p1,r,p0,p1", to2, g.id(1)))
	ops = append(ops, "go ms=5", "settle")
	return ops
}

// the front-end does not get to its mailbox for longer than the 30 s request
// timeout (+1 s expiry tick) — its goroutine sleeps right after answering a
// front-local request — while a back-end's timers push to its clients: the
// back-end's sys.pushmsg requests expire, the pushes are still queued at the
// front and must be delivered once, in order, when it goes on
func (g *gen) holdCase(back int, ms int) []string {
	r := g.h.R
	g.h.Count("case:front-held-31s")
	g.nreq = map[int]int{}
	ops := []string{"reset n=2"}
	ops = append(ops, fmt.Sprintf("req c=0 to=%d r=%d/r,t20c0x%d,t40c1x%d,t25000c0x2", back, g.id(0), 1+r.Intn(4), 1+r.Intn(3)))
	ops = append(ops, fmt.Sprintf("req c=1 to=0 r=%d/p1,r,s%d", g.id(1), ms))
	ops = append(ops, "go ms=100", fmt.Sprintf("go ms=%d", ms+1500), "settle")
	return ops
}

// a back-end handler stores something in its BackSession (Set, dirty, not
// pushed) before answering, and the same service issues something for the same
// client right afterwards: a push, or the response of a pipelined request
func (g *gen) setCase(back int) []string {
	r := g.h.R
	g.h.Count("case:session-set-before-response")
	g.nreq = map[int]int{}
	ops := []string{"reset n=2"}
	c := r.Intn(2)
	ops = append(ops, fmt.Sprintf("req c=%d to=%d r=%d/p%d,S,r,p%d,p%d", c, back, g.id(c), c, c, 1-c))
	ops = append(ops, fmt.Sprintf("req c=%d to=%d r=%d/S,r r=%d/r r=%d/p%d,S,r", c, back, g.id(c), g.id(c), g.id(c), c))
	ops = append(ops, fmt.Sprintf("req c=%d to=0 r=%d/S,p%d,r,p%d", 1-c, g.id(1-c), 1-c, 1-c))
	ops = append(ops, "go ms=3", "settle")
	return ops
}

// a broadcast (one PushMessageByIds) to more connections than any fan-out
// limit one might think of — `extra` unobserved connections of the front plus
// four observed clients listed first, at #256, at #257 and last — followed at
// once by another push / the response to a late-listed connection
func (g *gen) bcastCase(to int, extra int) []string {
	g.h.Count("case:broadcast-300")
	g.nreq = map[int]int{}
	ops := []string{fmt.Sprintf("reset n=4 extra=%d", extra)}
	ops = append(ops, fmt.Sprintf("req c=3 to=%d r=%d/p3,M,p3,r,p2,M,p1,p0", to, g.id(3)))
	ops = append(ops, fmt.Sprintf("req c=2 to=%d r=%d/M,r,p2", (to+1)%len(svcNames), g.id(2)))
	ops = append(ops, "go ms=3", "settle")
	return ops
}

var padSizes = []int{64, 1000, 4000, 4040, 4070, 4090, 4095, 4096, 4097, 5000, 8192, 65536}

// sized draws a push / response action with a padded payload
func (g *gen) sized(act string) string {
	n := padSizes[g.h.R.Intn(len(padSizes))]
	switch {
	case n < 4000:
		g.h.Count("size:<4k")
	case n < 4200:
		g.h.Count("size:~4k")
	case n <= 8192:
		g.h.Count("size:5-8k")
	default:
		g.h.Count("size:64k")
	}
	return fmt.Sprintf("%sb%d", act, n)
}

// payload sizes mixed within one burst — mostly small, some around 4 KB, 8 KB,
// 64 KB, for pushes AND the response — towards a client that is stalled (so
// that a backlog waits in the send queue when the writer goes on) or reading
func (g *gen) sizeCase(to, to2 int, stalled bool, k int) []string {
	r := g.h.R
	g.h.Count("case:payload-sizes")
	g.nreq = map[int]int{}
	ops := []string{"reset n=2 slow=1"}
	if stalled {
		ops = append(ops, "stall c=0")
	}
	var a []string
	respAt := r.Intn(k + 1)
	for i := 0; i <= k; i++ {
		if i == respAt {
			if r.Intn(2) == 0 {
				a = append(a, g.sized("r"))
			} else {
				a = append(a, "r")
			}
			continue
		}
		switch r.Intn(5) {
		case 0:
			a = append(a, g.sized("p0"))
		case 1:
			a = append(a, fmt.Sprintf("P0x%d", 1+r.Intn(12)))
		default:
			a = append(a, "p0")
		}
	}
	ops = append(ops, fmt.Sprintf("req c=0 to=%d r=%d/%s", to, g.id(0), strings.Join(a, ",")))
	ops = append(ops, fmt.Sprintf("req c=1 to=%d r=%d/p0,%s,p1,%s,p0,p1", to2, g.id(1), g.sized("p0"), g.sized("r")))
	if stalled {
		ops = append(ops, "go ms=3", "resume c=0")
	}
	ops = append(ops, "go ms=5", "settle")
	return ops
}

func (g *gen) genCase() []string {
	r := g.h.R
	g.nreq = map[int]int{}
	x := r.Intn(100)
	thorough := g.h.Thorough()
	switch {
	case x == 92:
		return g.holdCase(1+r.Intn(3), g.h.Pick(31500, 32000, 35000))
	case x == 91:
		return g.bcastCase(r.Intn(len(svcNames)), g.h.Pick(253, 296, 340))
	case x >= 88 && x < 91:
		return g.setCase(1+r.Intn(3))
	case x >= 93 && x < 97:
		return g.sizeCase(r.Intn(len(svcNames)), r.Intn(len(svcNames)), r.Intn(3) != 0, 4+r.Intn(30))
	case x >= 97:
		return g.faultCase(r.Intn(len(svcNames)), r.Intn(len(svcNames)), r.Intn(2) == 0, 1+r.Intn(3), r.Intn(2) == 0, 3+r.Intn(40))
	case x >= 30 && x < 34:
		nc := 3 + r.Intn(2)
		victim := r.Intn(nc - 1)
		req := (victim + 1 + r.Intn(nc-1)) % nc
		return g.busyCloseCase(nc, victim, req, r.Intn(nc), r.Intn(len(svcNames)))
	case x == 37 || (x == 38 && r.Intn(2) == 0):
		return g.slowDrainCase(r.Intn(len(svcNames)), 10050+r.Intn(500), r.Intn(4), 1+r.Intn(5))
	case x >= 34 && x < 37:
		return g.oddClientCase(r.Intn(len(svcNames)), r.Intn(len(svcNames)), 1+r.Intn(2), r.Intn(3) == 0, r.Intn(4), 1+r.Intn(3))
	case x < 2:
		return g.stallCase(r.Intn(len(svcNames)), r.Intn(len(svcNames)), 10050+r.Intn(1500), r.Intn(200))
	case x < 6:
		return g.burstCase(thorough)
	case x < 12:
		return g.blockingPostCase(thorough)
	case x < 20:
		return g.closeCase()
	case x < 30:
		return g.frontLocalCase()
	default:
		return g.mixedCase()
	}
}

// a client goes away while the front's goroutine is busy (asleep inside a handler): its session is closed but
// the RemoveSession the closing socket posted has not run yet when the front — and another service — issue
// multi-target pushes whose id lists name the dead connection before live ones; the front's on-close callbacks
// (bye=1) push a notice to the others when the removal finally runs
func (g *gen) busyCloseCase(nc, victim, req, req2, to2 int) []string {
	g.h.Count("case:close-while-front-busy")
	g.nreq = map[int]int{}
	last := nc - 1
	ops := []string{fmt.Sprintf("reset n=%d bye=1", nc)}
	ops = append(ops, fmt.Sprintf("req c=%d to=0 r=%d/s%d,p%d,m,p%d,r,m,p%d", req, g.id(req), g.h.Pick(5, 10, 21), last, last, last))
	if req2 != victim {
		ops = append(ops, fmt.Sprintf("req c=%d to=%d r=%d/s%d,m,r,p%d,m", req2, to2, g.id(req2), g.h.Pick(2, 8, 12), last))
	}
	ops = append(ops, fmt.Sprintf("close c=%d", victim), "go ms=30", "settle")
	return ops
}

// a client that repeats protocol packets on its working connection (one more HandshakeAck, or a whole second
// handshake) and whose link is slow for a few packets (each of those writes takes some ms) while a burst and
// the response are queued for it; a second client is served meanwhile
func (g *gen) oddClientCase(to, to2, acks int, hs bool, skip, n int) []string {
	r := g.h.R
	g.h.Count("case:odd-client")
	g.h.Count(fmt.Sprintf("odd-client:hs=%v", hs))
	g.nreq = map[int]int{}
	ops := []string{"reset n=2 slow=1"}
	for i := 0; i < acks; i++ {
		if hs && i == 0 {
			ops = append(ops, "ack c=0 hs=1")
		} else {
			ops = append(ops, "ack c=0")
		}
	}
	ops = append(ops, fmt.Sprintf("lag c=0 n=%d ms=%d skip=%d", n, g.h.Pick(1, 5, 25), skip))
	ops = append(ops, fmt.Sprintf("req c=0 to=%d r=%d/P0x%d,r,P0x%d,p1", to, g.id(0), 2+r.Intn(8), r.Intn(4)))
	ops = append(ops, fmt.Sprintf("req c=1 to=%d r=%d/p0,p1,r,p0", to2, g.id(1)))
	ops = append(ops, "go ms=100", "settle")
	return ops
}

// several clients, several services, rounds of requests that start together
func (g *gen) mixedCase() []string {
	r := g.h.R
	g.h.Count("case:mixed")
	nc := 1 + r.Intn(4)
	ops := []string{fmt.Sprintf("reset n=%d", nc)}
	if r.Intn(3) == 0 {
		ops[0] += " bye=1"
	}
	rounds := 1 + r.Intn(3)
	for ; rounds > 0; rounds-- {
		nreq := 1 + r.Intn(5)
		lead := g.h.Pick(0, 3, 3, 5)
		for i := 0; i < nreq; i++ {
			c := r.Intn(nc)
			to := r.Intn(len(svcNames))
			g.h.Count(fmt.Sprintf("to:%d", to))
			var rs []string
			for k := 1 + r.Intn(3)/2; k > 0; k-- {
				rs = append(rs, fmt.Sprintf("r=%d/%s", g.id(c), g.script(nc, c, to, lead, 7)))
			}
			if len(rs) > 1 {
				g.h.Count("frame:multi")
			}
			ops = append(ops, fmt.Sprintf("req c=%d to=%d %s", c, to, strings.Join(rs, " ")))
		}
		ops = append(ops, fmt.Sprintf("go ms=%d", g.h.Pick(1, 4, 10, 30, 80)))
	}
	ops = append(ops, "settle")
	return ops
}

// the front as issuer: pushes before / after completing (D8's shape), also with
// back-end traffic to the same client under way
func (g *gen) frontLocalCase() []string {
	r := g.h.R
	g.h.Count("case:front-local")
	nc := 1 + r.Intn(3)
	ops := []string{fmt.Sprintf("reset n=%d", nc)}
	for i := 1 + r.Intn(4); i > 0; i-- {
		c := r.Intn(nc)
		if r.Intn(2) == 0 {
			ops = append(ops, fmt.Sprintf("req c=%d to=%d r=%d/s2,P%dx%d,r,P%dx%d", c, 1+r.Intn(3), g.id(c), c, 1+r.Intn(20), c, 1+r.Intn(5)))
		}
		before, after := r.Intn(5), r.Intn(4)
		var a []string
		if r.Intn(2) == 0 {
			a = append(a, "s2")
		}
		for k := 0; k < before; k++ {
			if r.Intn(6) == 0 {
				a = append(a, fmt.Sprintf("u%d", c))
				g.h.Count("front-local:unmarshalable")
			} else {
				a = append(a, fmt.Sprintf("p%d", c))
			}
		}
		a = append(a, "r")
		for k := 0; k < after; k++ {
			a = append(a, fmt.Sprintf("p%d", g.h.R.Intn(nc)))
		}
		g.h.Count(fmt.Sprintf("front-local:before=%d", before))
		ops = append(ops, fmt.Sprintf("req c=%d to=0 r=%d/%s", c, g.id(c), strings.Join(a, ",")))
		if r.Intn(2) == 0 {
			ops = append(ops, "go ms=3")
		}
	}
	ops = append(ops, "settle")
	return ops
}

// bursts of 10^3 (quick) .. 10^4 (thorough) pushes from several issuers to one
// client, handlers sleeping past the 20 ms frame budget between chunks, the
// front napping inside its mailbox run: smoothing pauses on both sides
func (g *gen) burstCase(thorough bool) []string {
	r := g.h.R
	g.h.Count("case:burst")
	nc := 1 + r.Intn(3)
	size := 200 + r.Intn(800)
	if thorough && g.big < 40 && r.Intn(3) == 0 {
		size = 2500 + r.Intn(7500)
		g.big++
		g.h.Count("case:burst-10k")
	}
	ops := []string{fmt.Sprintf("reset n=%d", nc)}
	tgt := r.Intn(nc)
	nIss := 2 + r.Intn(3)
	for i := 0; i < nIss; i++ {
		c := r.Intn(nc)
		to := (i + 1) % len(svcNames)
		chunk := size / 4
		var a []string
		a = append(a, "s3")
		for k := 0; k < 4; k++ {
			a = append(a, fmt.Sprintf("P%dx%d", tgt, chunk))
			switch r.Intn(4) {
			case 0:
				a = append(a, fmt.Sprintf("s%d", g.h.Pick(11, 21, 25)))
			case 1:
				if to != 0 {
					a = append(a, fmt.Sprintf("n%d", g.h.Pick(21, 30)))
				}
			case 2:
				if k == 1 {
					a = append(a, "r")
				}
			}
		}
		if !contains(a, "r") {
			a = append(a, "r")
		}
		a = append(a, fmt.Sprintf("P%dx%d", tgt, 1+r.Intn(10)))
		ops = append(ops, fmt.Sprintf("req c=%d to=%d r=%d/%s", c, to, g.id(c), strings.Join(a, ",")))
	}
	ops = append(ops, "go ms=2", "go ms=40", "settle")
	return ops
}

func contains(a []string, s string) bool {
	for _, x := range a {
		if x == s {
			return true
		}
	}
	return false
}

// a worker goroutine posts more closures than the 999-slot task queue holds
// while the service sleeps: posts block on the full channel (and with the
// overflow path they would be handed to helper goroutines)
func (g *gen) blockingPostCase(thorough bool) []string {
	r := g.h.R
	g.h.Count("case:blocking-post")
	nc := 1 + r.Intn(2)
	ops := []string{fmt.Sprintf("reset n=%d", nc)}
	c := r.Intn(nc)
	to := r.Intn(len(svcNames))
	n := g.h.Pick(990, 1000, 1200, 1500)
	if thorough {
		n = g.h.Pick(1000, 1500, 2500, 4000)
	}
	g.h.Count(fmt.Sprintf("blocking-post:to=%d", to))
	ops = append(ops, fmt.Sprintf("req c=%d to=%d r=%d/W%dx%d,s%d,p%d,s%d,p%d", c, to, g.id(c), c, n, g.h.Pick(5, 30), c, g.h.Pick(1, 25), c))
	if r.Intn(2) == 0 {
		o := r.Intn(nc)
		ops = append(ops, fmt.Sprintf("req c=%d to=%d r=%d/p%d,r,p%d", o, (to+1)%len(svcNames), g.id(o), c, c))
	}
	ops = append(ops, "go ms=10", "go ms=60", "settle")
	return ops
}

// a client goes away while messages for it are under way: what it received is
// still an initial segment, the others are unaffected
func (g *gen) closeCase() []string {
	r := g.h.R
	g.h.Count("case:close")
	nc := 2 + r.Intn(2)
	ops := []string{fmt.Sprintf("reset n=%d", nc)}
	if r.Intn(2) == 0 {
		ops[0] += " bye=1"
		g.h.Count("close:on-close-callback")
	}
	victim := r.Intn(nc)
	for i := 0; i < 2+r.Intn(3); i++ {
		c := r.Intn(nc)
		to := r.Intn(len(svcNames))
		ops = append(ops, fmt.Sprintf("req c=%d to=%d r=%d/s3,P%dx%d,r,s%d,P%dx%d,p%d", c, to, g.id(c), victim, 5+r.Intn(200), g.h.Pick(1, 11, 21), victim, 5+r.Intn(100), c))
	}
	ops = append(ops, fmt.Sprintf("go ms=%d", g.h.Pick(3, 4, 10)))
	ops = append(ops, fmt.Sprintf("close c=%d", victim))
	ops = append(ops, "go ms=30", "settle")
	return ops
}
