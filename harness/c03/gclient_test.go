package c03

// gclient: a scripted raw pomelo client whose reader can be stalled — built
// like node.Client (real session.NewClientSession over net.Pipe with the
// framing of tcpPlayerConn, cfg.Impl = pomelo.NewSessionsImpl), kept in this
// package because the shared engine's client always reads.  While stalled the
// client does not read: the session's writer blocks in conn.Write after one
// packet, chSend (9999) fills up, and the service goroutine that pushes next
// blocks on the full channel until the client reads again.

import (
	"io"
	"io/ioutil"
	"net"
	"sync"
	"testing/synctest"
	"time"

	"cell2verif/node"

	"github.com/dfklegend/cell2/node/client/impls/pomelo"
	"github.com/dfklegend/cell2/pomelonet/common/conn/codec"
	"github.com/dfklegend/cell2/pomelonet/common/conn/message"
	"github.com/dfklegend/cell2/pomelonet/common/conn/packet"
	"github.com/dfklegend/cell2/pomelonet/constants"
	"github.com/dfklegend/cell2/pomelonet/server/session"
)

// cli is what the harness needs from a client (node.Client satisfies it).
type cli interface {
	Open() bool
	SendRaw([]byte) bool
	Packet(*message.Message) []byte
	Take() []node.Msg
	Closed() bool
	NetId() uint32
	Close()
	Handshake() bool
	Ack() bool
}

type pipeConn struct{ net.Conn }

// GetNextMessage: the framing of tcpPlayerConn.GetNextMessage (tcp_acceptor.go)
func (t *pipeConn) GetNextMessage() (b []byte, err error) {
	header, err := ioutil.ReadAll(io.LimitReader(t.Conn, codec.HeadLength))
	if err != nil {
		return nil, err
	}
	if len(header) == 0 {
		return nil, constants.ErrConnectionClosed
	}
	msgSize, _, err := codec.ParseHeader(header)
	if err != nil {
		return nil, err
	}
	msgData, err := ioutil.ReadAll(io.LimitReader(t.Conn, int64(msgSize)))
	if err != nil {
		return nil, err
	}
	if len(msgData) < msgSize {
		return nil, constants.ErrReceivedMsgSmallerThanExpected
	}
	return append(header, msgData...), nil
}

// timeoutErr is a net.Error with Timeout() == true (write deadline expiry / ETIMEDOUT).
type timeoutErr struct{}

func (timeoutErr) Error() string   { return "i/o timeout" }
func (timeoutErr) Timeout() bool   { return true }
func (timeoutErr) Temporary() bool { return true }

var _ net.Error = timeoutErr{}

// faultConn is the server end of the pipe with scripted write faults: the
// next failN calls of Write fail with a timeout net.Error, optionally after
// having written the first half of the packet.
type faultConn struct {
	net.Conn
	mu      sync.Mutex
	failN   int
	partial bool
	lagSkip int           // writes to let through before the lag starts
	lagN    int           // the next lagN writes each take lagD (virtual time) before they reach the wire
	lagD    time.Duration
}

func (f *faultConn) Write(b []byte) (int, error) {
	f.mu.Lock()
	fail, partial := f.failN > 0, f.partial
	if fail {
		f.failN--
	}
	var lag time.Duration
	if !fail {
		if f.lagSkip > 0 {
			f.lagSkip--
		} else if f.lagN > 0 {
			f.lagN--
			lag = f.lagD
		}
	}
	f.mu.Unlock()
	if lag > 0 {
		time.Sleep(lag) // a slow link: whoever writes this packet is held up; nobody else is
	}
	if !fail {
		return f.Conn.Write(b)
	}
	n := 0
	if partial && len(b) > 1 {
		n, _ = f.Conn.Write(b[:len(b)/2])
	}
	return n, timeoutErr{}
}

type gclient struct {
	fc   *faultConn
	sess *session.ClientSession
	conn net.Conn
	enc  *codec.PomeloPacketEncoder
	menc *message.MessagesEncoder

	mu     sync.Mutex
	recv   []node.Msg
	taken  int
	closed bool
	gate   chan struct{} // non-nil while stalled; closed by resume
}

func newGClient(n *node.Node, front string) *gclient {
	ns := n.Service(front)
	srvEnd, cliEnd := net.Pipe()
	cfg := session.NewSessionConfig(nil)
	cfg.Impl = pomelo.NewSessionsImpl(ns.GetRunService().GetScheduler(), n.Sessions(front))
	c := &gclient{conn: cliEnd, enc: codec.NewPomeloPacketEncoder(), menc: message.NewMessagesEncoder(false)}
	go c.reader()
	c.fc = &faultConn{Conn: srvEnd}
	c.sess = session.NewClientSession(&pipeConn{Conn: c.fc}, cfg)
	c.sess.Handle()
	synctest.Wait()
	return c
}

func (c *gclient) stall() {
	c.mu.Lock()
	if c.gate == nil {
		c.gate = make(chan struct{})
	}
	c.mu.Unlock()
}

func (c *gclient) resume() {
	c.mu.Lock()
	if c.gate != nil {
		close(c.gate)
		c.gate = nil
	}
	c.mu.Unlock()
	synctest.Wait()
}

func (c *gclient) reader() {
	fail := func() {
		c.mu.Lock()
		c.closed = true
		c.mu.Unlock()
	}
	for {
		c.mu.Lock()
		g := c.gate
		c.mu.Unlock()
		if g != nil {
			<-g // stalled: do not read
		}
		head := make([]byte, codec.HeadLength)
		if _, err := io.ReadFull(c.conn, head); err != nil {
			fail()
			return
		}
		body := make([]byte, codec.BytesToInt(head[1:]))
		if _, err := io.ReadFull(c.conn, body); err != nil {
			fail()
			return
		}
		if packet.Type(head[0]) != packet.Data {
			continue
		}
		dm, err := message.Decode(body)
		if err != nil {
			continue
		}
		kind := map[message.Type]string{message.Response: "response", message.Push: "push"}[dm.Type]
		m := node.Msg{Kind: kind, ID: dm.ID, Route: dm.Route, Err: dm.Err, Data: append([]byte(nil), dm.Data...)}
		c.mu.Lock()
		c.recv = append(c.recv, m)
		c.mu.Unlock()
	}
}

func (c *gclient) SendRaw(b []byte) bool {
	_, err := c.conn.Write(b)
	synctest.Wait()
	return err == nil
}

func (c *gclient) sendPacket(typ packet.Type, body []byte) bool {
	p, err := c.enc.Encode(typ, body)
	if err != nil {
		return false
	}
	return c.SendRaw(p)
}

func (c *gclient) Packet(m *message.Message) []byte {
	b, err := c.menc.Encode(m)
	if err != nil {
		return nil
	}
	p, _ := c.enc.Encode(packet.Data, b)
	return p
}

func (c *gclient) Open() bool {
	return c.sendPacket(packet.Handshake, []byte(`{"sys":{"platform":"verif","libVersion":"0","clientBuildNumber":"0","clientVersion":"0"},"user":{}}`)) &&
		c.sendPacket(packet.HandshakeAck, nil)
}

// Handshake / Ack: protocol packets a client may repeat on a working connection
func (c *gclient) Handshake() bool {
	return c.sendPacket(packet.Handshake, []byte(`{"sys":{"platform":"verif","libVersion":"0","clientBuildNumber":"0","clientVersion":"0"},"user":{}}`))
}

func (c *gclient) Ack() bool { return c.sendPacket(packet.HandshakeAck, nil) }

// lag: after skip more writes, the next n writes of the server side each take d.
func (c *gclient) lag(skip, n int, d time.Duration) {
	c.fc.mu.Lock()
	c.fc.lagSkip, c.fc.lagN, c.fc.lagD = skip, n, d
	c.fc.mu.Unlock()
}

func (c *gclient) Take() []node.Msg {
	c.mu.Lock()
	defer c.mu.Unlock()
	out := append([]node.Msg(nil), c.recv[c.taken:]...)
	c.taken = len(c.recv)
	return out
}

func (c *gclient) Closed() bool {
	c.mu.Lock()
	defer c.mu.Unlock()
	return c.closed
}

func (c *gclient) NetId() uint32 { return c.sess.GetId() }

func (c *gclient) Close() {
	c.mu.Lock()
	if c.gate != nil {
		close(c.gate)
		c.gate = nil
	}
	c.mu.Unlock()
	c.conn.Close()
	synctest.Wait()
}

// fault arms the next n writes of the server side to fail with a timeout error.
func (c *gclient) fault(n int, partial bool) {
	c.fc.mu.Lock()
	c.fc.failN, c.fc.partial = n, partial
	c.fc.mu.Unlock()
}
