// C06 correspondence harness: runs the real pomelo codec on generated and
// replayed op lines and records one observation per op.
package c06

import (
	"fmt"
	"strings"
	"testing"

	"cell2verif/hx"

	"github.com/dfklegend/cell2/pomelonet/common/conn/codec"
	"github.com/dfklegend/cell2/pomelonet/common/conn/message"
	"github.com/dfklegend/cell2/pomelonet/common/conn/packet"
	"github.com/dfklegend/cell2/utils/compression"
)

// exact returns a copy whose capacity equals its length, so an out-of-bounds
// slice expression in the code under test is a panic, not a silent over-read.
func exact(b []byte) []byte {
	c := make([]byte, len(b), len(b))
	copy(c, b)
	return c
}

func showMsg(m *message.Message) string {
	return fmt.Sprintf("ok typ=%d id=%d route=%s data=%s err=%d", m.Type, uint64(m.ID), hx.Hex([]byte(m.Route)), hx.Hex(m.Data), hx.B2i(m.Err))
}

func showPackets(ps []*packet.Packet) string {
	var sb strings.Builder
	sb.WriteString("ok")
	for _, p := range ps {
		fmt.Fprintf(&sb, " p=%d:%s", p.Type, hx.Hex(p.Data))
	}
	return sb.String()
}

func doDecode(data []byte) string {
	return hx.Guard(func() string {
		m, err := message.Decode(exact(data))
		if err != nil {
			return "err"
		}
		return showMsg(m)
	})
}

// exec interprets one op line against the real code.
func exec(op string) string {
	ws := hx.Words(op)
	if len(ws) == 0 {
		return "bad-op"
	}
	switch ws[0] {
	case "dict":
		return hx.Guard(func() string {
			err := message.SetDictionary(map[string]uint16{string(hx.KVHex(ws, "route")): uint16(hx.KVInt(ws, "code"))})
			if err != nil {
				return "dup"
			}
			return "ok"
		})
	case "enc", "rt":
		return hx.Guard(func() string {
			m := &message.Message{Type: message.Type(hx.KVInt(ws, "typ")), ID: uint(hx.KVU64(ws, "id")),
				Route: string(hx.KVHex(ws, "route")), Data: exact(hx.KVHex(ws, "data")), Err: hx.KVInt(ws, "err") == 1}
			enc := &message.MessagesEncoder{DataCompression: hx.KVInt(ws, "comp") == 1}
			b, err := enc.Encode(m)
			if err != nil {
				return "err"
			}
			if ws[0] == "enc" {
				return "ok " + hx.Hex(b)
			}
			return "ok " + hx.Hex(b) + " | " + doDecode(b)
		})
	case "dec":
		return doDecode(hx.KVHex(ws, "data"))
	case "penc":
		return hx.Guard(func() string {
			b, err := codec.NewPomeloPacketEncoder().Encode(packet.Type(hx.KVInt(ws, "typ")), hx.KVHex(ws, "data"))
			if err != nil {
				return "err"
			}
			return "ok " + hx.Hex(b)
		})
	case "pdec":
		return hx.Guard(func() string {
			ps, err := codec.NewPomeloPacketDecoder().Decode(exact(hx.KVHex(ws, "data")))
			if err != nil {
				return "err"
			}
			return showPackets(ps)
		})
	case "plimit":
		// bodies around the 3-byte length limit: encode, then decode the stream again
		return hx.Guard(func() string {
			n := hx.KVInt(ws, "n")
			body := make([]byte, n)
			for i := range body {
				body[i] = byte(i * 7)
			}
			b, err := codec.NewPomeloPacketEncoder().Encode(packet.Type(hx.KVInt(ws, "typ")), body)
			if err != nil {
				return "err"
			}
			rt := "bad"
			ps, derr := codec.NewPomeloPacketDecoder().Decode(b)
			if derr == nil && len(ps) == 1 && int(ps[0].Type) == hx.KVInt(ws, "typ") && string(ps[0].Data) == string(body) {
				rt = "ok"
			}
			return "ok hdr=" + hx.Hex(b[:4]) + " rt=" + rt
		})
	case "prt":
		return hx.Guard(func() string {
			var all []byte
			for _, w := range ws[1:] {
				if !strings.HasPrefix(w, "p=") {
					continue
				}
				parts := strings.SplitN(w[2:], ":", 2)
				var t int
				fmt.Sscanf(parts[0], "%d", &t)
				body := hx.KVHex([]string{"x=" + parts[1]}, "x")
				b, err := codec.NewPomeloPacketEncoder().Encode(packet.Type(t), body)
				if err != nil {
					return "encerr"
				}
				all = append(all, b...)
			}
			ps, err := codec.NewPomeloPacketDecoder().Decode(exact(all))
			if err != nil {
				return "err"
			}
			return showPackets(ps)
		})
	}
	return "bad-op"
}

// decOp builds a `dec` op line; for gzip-flagged inputs it lists every body
// suffix that the real zlib inflates (the model's abstract `inflate`).
func decOp(data []byte) string {
	op := "dec data=" + hx.Hex(data)
	if len(data) >= 2 && data[0]&0x10 != 0 {
		var parts []string
		lim := len(data)
		if lim > 300 {
			lim = 300
		}
		for k := 1; k <= lim; k++ {
			if d, err := compression.InflateData(data[k:]); err == nil {
				parts = append(parts, fmt.Sprintf("%d:%s", len(data)-k, hx.Hex(d)))
			}
		}
		if len(parts) > 0 {
			op += " infl=" + strings.Join(parts, ",")
		}
	}
	return op
}

var ids = []uint64{0, 1, 127, 128, 129, 16383, 16384, 300, 1<<21 - 1, 1 << 21, 1<<32 - 1, 1 << 32, 1<<63 - 1, 1 << 63, 1<<64 - 1}

type gen struct {
	t      *hx.T
	routes [][]byte // dictionary routes
}

func (g *gen) route() []byte {
	t := g.t
	switch t.R.Intn(6) {
	case 0:
		return nil
	case 1:
		if len(g.routes) > 0 {
			t.Count("route.dict")
			return g.routes[t.R.Intn(len(g.routes))]
		}
	case 2:
		t.Count("route.255")
		return t.Bytes(255)
	case 3:
		return []byte("chat.room.say")
	}
	return t.Bytes(1 + t.R.Intn(20))
}

func (g *gen) payload() []byte {
	t := g.t
	max := 300
	if t.Thorough() {
		max = 70000
	}
	switch t.R.Intn(6) {
	case 0:
		return nil
	case 5: // payloads that LOOK compressed (zlib/gzip magic) but are plain data, or really are deflated data
		t.Count("payload.zlibmagic")
		switch t.R.Intn(3) {
		case 0:
			d, _ := compression.DeflateData(t.Bytes(t.R.Intn(40)))
			return d
		case 1:
			magic := [][]byte{{0x78, 0x01}, {0x78, 0x5e}, {0x78, 0x9c}, {0x78, 0xda}, {0x1f, 0x8b}}[t.R.Intn(5)]
			return append(append([]byte{}, magic...), t.Bytes(1+t.R.Intn(20))...)
		}
		return []byte{0x78, 0x9c}
	case 1: // compressible
		n := t.R.Intn(max)
		b := make([]byte, n)
		for i := range b {
			b[i] = byte('a' + i%3)
		}
		t.Count("payload.compressible")
		return b
	case 2:
		return t.Bytes(t.R.Intn(max))
	}
	return t.Bytes(t.R.Intn(24))
}

func (g *gen) msgOp(kind string) (string, []byte) {
	t := g.t
	typ := t.R.Intn(4)
	if t.R.Intn(40) == 0 {
		typ = 4 + t.R.Intn(4)
		t.Count("msg.invalidtype")
	}
	id := ids[t.R.Intn(len(ids))]
	if t.R.Intn(3) == 0 {
		id = t.R.Uint64() >> uint(t.R.Intn(64))
	}
	route, data := g.route(), g.payload()
	comp := t.R.Intn(2)
	errf := t.R.Intn(2)
	defl, _ := compression.DeflateData(data)
	t.Count(fmt.Sprintf("msg.typ%d", typ))
	if comp == 1 && len(defl) < len(data) {
		t.Count("msg.gzipped")
	}
	op := fmt.Sprintf("%s typ=%d id=%d route=%s data=%s err=%d comp=%d defl=%s", kind, typ, id, hx.Hex(route), hx.Hex(data), errf, comp, hx.Hex(defl))
	// validate the zlib assumption the model relies on: inflate(deflate d) = d
	if back, err := compression.InflateData(defl); err != nil || string(back) != string(data) {
		t.Count("ASSUMPTION-BROKEN.zlib")
	}
	return op, data
}

func (g *gen) validEncoding() []byte {
	op, _ := g.msgOp("enc")
	obs := exec(op)
	if strings.HasPrefix(obs, "ok ") {
		return hx.KVHex([]string{"x=" + obs[3:]}, "x")
	}
	return []byte{0, 0}
}

func (g *gen) packetsOp() string {
	t := g.t
	n := t.R.Intn(5)
	var sb strings.Builder
	sb.WriteString("prt")
	for i := 0; i < n; i++ {
		typ := 1 + t.R.Intn(5)
		if t.R.Intn(30) == 0 {
			typ = t.Pick(0, 6, 255)
			t.Count("packet.badtype")
		}
		sz := t.Pick(0, 0, 1, 3, 255, 256, 257, 1000)
		if t.Thorough() && t.R.Intn(20) == 0 {
			sz = t.Pick(65535, 65536, 70000)
		}
		fmt.Fprintf(&sb, " p=%d:%s", typ, hx.Hex(t.Bytes(sz)))
	}
	t.Count(fmt.Sprintf("prt.n%d", n))
	return sb.String()
}

func (g *gen) badStream() []byte {
	t := g.t
	switch t.R.Intn(5) {
	case 0:
		return t.Bytes(t.R.Intn(12))
	case 1: // valid frames then a truncated one
		var all []byte
		for i := 0; i < 1+t.R.Intn(3); i++ {
			b, _ := codec.NewPomeloPacketEncoder().Encode(packet.Type(1+t.R.Intn(5)), t.Bytes(t.R.Intn(9)))
			all = append(all, b...)
		}
		if len(all) > 0 {
			all = all[:len(all)-1-t.R.Intn(min(len(all)-1, 6)+1)+1]
		}
		t.Count("stream.truncated")
		return all
	case 2: // header announcing more than is there / huge
		return []byte{byte(1 + t.R.Intn(5)), byte(t.R.Intn(256)), byte(t.R.Intn(256)), byte(t.R.Intn(256)), 1, 2, 3}
	case 3: // good frame followed by a bad type header
		b, _ := codec.NewPomeloPacketEncoder().Encode(packet.Data, t.Bytes(3))
		t.Count("stream.badsecondheader")
		return append(b, byte(t.Pick(0, 6, 200)), 0, 0, 1, 9)
	}
	b, _ := codec.NewPomeloPacketEncoder().Encode(packet.Type(1+t.R.Intn(5)), t.Bytes(t.R.Intn(5)))
	i := t.R.Intn(len(b))
	b[i] ^= byte(1 << uint(t.R.Intn(8)))
	return b
}

func TestRun(t *testing.T) {
	h := hx.Open()
	defer h.Close()
	run := func(op string) {
		h.Emit(op, exec(op))
	}
	if ops := hx.ReplayOps(); ops != nil {
		for _, op := range ops {
			run(op)
		}
		return
	}
	g := &gen{t: h}
	// dictionary: a few entries, a duplicate route and a duplicate code
	for i, r := range []string{"chat.room.join", "a.b.c", "x", "connector.entry.enter"} {
		g.routes = append(g.routes, []byte(r))
		run(fmt.Sprintf("dict route=%s code=%d", hx.Hex([]byte(r)), []int{1, 255, 256, 65535}[i]))
	}
	run(fmt.Sprintf("dict route=%s code=9", hx.Hex([]byte("a.b.c"))))
	run(fmt.Sprintf("dict route=%s code=255", hx.Hex([]byte("fresh.route"))))
	// corpus first
	for _, op := range hx.CorpusOps(hx.Env("VERIF_CORPUS", "corpus/C06")) {
		h.Count("corpus")
		run(op)
	}
	// exhaustive: every byte string of length <= 2 through both decoders
	run(decOp(nil))
	run("pdec data=")
	for a := 0; a < 256; a++ {
		run(decOp([]byte{byte(a)}))
		for b := 0; b < 256; b++ {
			run(decOp([]byte{byte(a), byte(b)}))
		}
	}
	h.Stats["exhaustive.dec.len<=2"] = 65793
	// the packet length limit (D13): 2^24-1 is the largest body the header can carry
	for _, n := range []int{1<<24 - 1, 1 << 24, 1<<24 + 1} {
		run(fmt.Sprintf("plimit typ=4 n=%d", n))
	}
	n := hx.EnvInt("VERIF_N", 4000)
	for i := 0; i < n; i++ {
		switch h.R.Intn(9) {
		case 0, 1, 2:
			op, _ := g.msgOp("rt")
			h.Count("op.rt")
			run(op)
		case 3:
			h.Count("op.prt")
			run(g.packetsOp())
		case 4:
			h.Count("op.pdec.bad")
			run("pdec data=" + hx.Hex(g.badStream()))
		case 5: // truncation of a valid encoding
			b := g.validEncoding()
			h.Count("op.dec.truncated")
			run(decOp(b[:h.R.Intn(len(b)+1)]))
		case 6: // single-byte mutation of a valid encoding
			b := g.validEncoding()
			i := h.R.Intn(len(b))
			if h.R.Intn(2) == 0 && len(b) > 4 {
				i = h.R.Intn(4)
			}
			b[i] ^= byte(1 << uint(h.R.Intn(8)))
			h.Count("op.dec.mutated")
			run(decOp(b))
		case 7: // random 3..40 bytes with a small flag byte so that every type/flag is hit
			b := h.Bytes(3 + h.R.Intn(38))
			if h.R.Intn(2) == 0 {
				b[0] = byte(h.R.Intn(64))
			}
			h.Count("op.dec.random")
			run(decOp(b))
		case 8: // id field stress: long runs of continuation bytes
			k := 1 + h.R.Intn(14)
			b := []byte{byte(h.Pick(0, 4, 1, 5, 0x20, 0x24))}
			for j := 0; j < k; j++ {
				b = append(b, byte(0x80|h.R.Intn(128)))
			}
			if h.R.Intn(2) == 0 {
				b = append(b, byte(h.R.Intn(128)))
				b = append(b, h.Bytes(h.R.Intn(6))...)
			}
			h.Count("op.dec.varint")
			run(decOp(b))
		}
	}
}


// TestExhaustive3 (thorough tier): every byte string of length 3 through
// message.Decode in-process; any panic is recorded, and every 97th input
// (plus all inputs whose flag byte selects a routable type) goes into the trace
// for comparison with the model.
func TestExhaustive3(t *testing.T) {
	h := hx.Open()
	defer h.Close()
	total, panics := 0, 0
	for a := 0; a < 256; a++ {
		for b := 0; b < 256; b++ {
			for c := 0; c < 256; c++ {
				data := []byte{byte(a), byte(b), byte(c)}
				total++
				obs := doDecode(data)
				if obs == "panic" {
					panics++
					if panics <= 20 {
						h.Emit(decOp(data), obs)
					}
					continue
				}
				if total%97 == 0 || (a < 8 && b < 8) {
					h.Emit(decOp(data), obs)
				}
			}
		}
	}
	h.Stats["exhaustive.dec.len=3"] = total
	h.Stats["exhaustive.dec.len=3.panics"] = panics
}
