// C06 correspondence harness: runs the real pomelo codec on generated and
// replayed op lines and records one observation per op.
//
// Ops:
//
//	dict route=<hex> code=N            SetDictionary with a single-entry map        -> ok | dup
//	dictm e=<hex>:N e=...              SetDictionary, several entries, no duplicates -> ok | dup
//	dictget                            GetDictionary, sorted by code
//	enc|rt typ= id= route= data= err= comp= defl=   Encode [+ Decode]
//	dec data=<hex> [infl=...]          message.Decode
//	penc typ= data= | pdec data= | prt p=T:<hex>... | plimit typ= n=   packet encoder/decoder
//	pdec2 a=<hex> b=<hex>              two Decode calls on ONE decoder: "<a> | <b> | <a read again>"
//	pdecs data=<hex> | pchk k=I        one decoder for the whole run; the last 8 results stay alive, pchk reads one again
//	sess data=<hex> [infl=...]         new ClientSession, handshake + ack, ONE Data packet staged -> working
//	sgo                                the session reads the staged packet -> delivered id= route= data= | closed
//	srt p=T:<hex>... cut=<a,b,..|all|every:K>   encoder frames, stream cut into fragments, real tcpPlayerConn.GetNextMessage
//	                                   + packet decoder -> ok p=T:<hex>... end=closed|err
//	gnm frag=<hex>,<hex>,...           raw fragments through GetNextMessage -> ok m=<hex>... end=closed|err
//	zrt n=N mode=raw|msg               N-byte compressible payload: Deflate/Inflate, or Encode(compression)/Decode -> ok out=M eq=0|1
//	mchain comp=C cut=<..> m=T:ID:<route>:<data>:E:<defl> ...   the whole path: Encode each message, frame as Data packets, the
//	                                   stream in fragments through the real GetNextMessage, packet Decode, message.Decode of every
//	                                   body; ALL decoded messages are held and rendered only at the end -> ok m=T:ID:<route>:<data>:E ... end=
//	rtd typ= id= route= data= err= comp= defl= key=<hex> code=N   Encode, THEN SetDictionary({key: code}), then Decode -> ok <hex> | ok|dup | <decoded>
//	enc2 typ= id= route= data= err= comp= defl= defl2=   Encode the SAME *Message twice -> ok <hex1> | ok <hex2> | <Decode of hex2>
//	crl p=T:<hex>... cut=<a,b,..>      encoder frames cut into fragments, read by the real pomelonet/client.readPackets (one
//	                                   accumulating bytes.Buffer); packets are queued, rendered when returned and again at the end
//	                                   -> "<as returned> | <at the end>"
//	sscr comp=C hsok=<hex>,.. <tok>...   new ClientSession in state Start and a SCRIPT of frames staged (tok: hs=<json hex> handshake
//	                                   frame | ack | hb | m=T:ID:<route>:<data>:E:<defl> message encoded + framed as Data | f=<hex> raw bytes
//	                                   handed over by GetNextMessage, any number of packets or garbage) -> working; `sgo` runs it ->
//	                                   delivered ... ; delivered ... ; closed|open      (hsok: the handshake bodies encoding/json accepts)
//	<harness-exit ...>                 (replays only) the process died here: runs the staged session
package c06

import (
	"encoding/json"
	"errors"
	"fmt"
	"io"
	"log"
	"net"
	"sort"
	"strings"
	"sync"
	"testing"
	"time"

	"cell2verif/hx"

	"github.com/dfklegend/cell2/node/builtin/msgs"
	"github.com/dfklegend/cell2/node/client/impls"
	"github.com/dfklegend/cell2/node/client/impls/pomelo"
	cs "github.com/dfklegend/cell2/node/client/session"
	"github.com/dfklegend/cell2/pomelonet/common/conn/codec"
	"github.com/dfklegend/cell2/pomelonet/common/conn/message"
	"github.com/dfklegend/cell2/pomelonet/common/conn/packet"
	"github.com/dfklegend/cell2/pomelonet/constants"
	"github.com/dfklegend/cell2/pomelonet/server/session"
	"github.com/dfklegend/cell2/utils/compression"
	"github.com/dfklegend/cell2/utils/logger"
	"github.com/dfklegend/cell2/utils/sche"
	"github.com/sirupsen/logrus"
)

// exact returns a copy whose capacity equals its length, so an out-of-bounds
// slice expression in the code under test is a panic, not a silent over-read.
func exact(b []byte) []byte {
	c := make([]byte, len(b), len(b))
	copy(c, b)
	return c
}

// recycle overwrites a buffer the harness handed to the PACKET decoder, as a caller with a pooled or
// accumulating read buffer does once Decode has returned (pomelonet/client.readPackets reuses one
// bytes.Buffer): packets that were returned must not change with it.
func recycle(b []byte) {
	for i := range b {
		b[i] ^= 0xa5
	}
}

func showMsg(m *message.Message) string {
	return fmt.Sprintf("ok typ=%d id=%d route=%s data=%s err=%d", m.Type, uint64(m.ID), hx.Hex([]byte(m.Route)), hx.Hex(m.Data), hx.B2i(m.Err))
}

func showPackets(ps []*packet.Packet) string {
	var sb strings.Builder
	sb.WriteString("ok")
	for _, p := range ps {
		fmt.Fprintf(&sb, " p=%d:%s", p.Type, hx.Hex(p.Data))
	}
	return sb.String()
}

func doDecode(data []byte) string {
	return hx.Guard(func() string {
		m, err := message.Decode(exact(data))
		if err != nil {
			return "err"
		}
		return showMsg(m)
	})
}

func showDec(ps []*packet.Packet, err error) string {
	if err != nil {
		return "err"
	}
	return showPackets(ps)
}

// ---- one long-lived packet decoder, as a server component has it ----
//
// `pdecs` decodes on sharedDec and KEEPS what was returned (the packet structs
// with their Data slices, not copies); `pchk k=i` renders the i-th newest kept
// result again, now.  Inputs are never touched after the call.

const winCap = 8

type kept struct {
	ps  []*packet.Packet
	err error
}

var (
	sharedDec = codec.NewPomeloPacketDecoder()
	window    []kept // newest first
)

func pushKept(k kept) {
	window = append([]kept{k}, window...)
	if len(window) > winCap {
		window = window[:winCap]
	}
}

// ---- session stream: a real ClientSession over a scripted in-memory PlayerConn ----
//
// cfg.Impl is the real pomelo.SessionsImpl posting to a real sche.Sche in front of
// the real impls.ClientSessions; the harness goroutine plays the owner (drains
// the scheduler) and records what the owner's ISessionsHandler is given.
// `sess data=<hex>` opens a session (handshake, handshake-ack) and stages ONE
// Data packet carrying <hex> as message bytes; `sgo` lets the session read it.
// A panic on the session's reader goroutine has no recover above it: it kills
// this process, exactly as it would kill the server.

var errConnClosed = errors.New("use of closed connection")

type frameItem struct {
	data []byte
	err  error
}

type sconn struct {
	in       chan frameItem
	asked    chan struct{} // one token per GetNextMessage call
	closedCh chan struct{}
	once     sync.Once
}

func newSconn() *sconn {
	return &sconn{in: make(chan frameItem, 1), asked: make(chan struct{}, 16), closedCh: make(chan struct{})}
}

func (c *sconn) GetNextMessage() ([]byte, error) {
	select {
	case <-c.closedCh:
		return nil, errConnClosed
	default:
	}
	c.asked <- struct{}{}
	select {
	case it := <-c.in:
		return it.data, it.err
	case <-c.closedCh:
		return nil, errConnClosed
	}
}

func (c *sconn) Write(b []byte) (int, error) {
	select {
	case <-c.closedCh:
		return 0, errConnClosed
	default:
	}
	return len(b), nil
}

func (c *sconn) Close() error {
	c.once.Do(func() { close(c.closedCh) })
	return nil
}

func (c *sconn) Read(b []byte) (int, error)         { return 0, io.EOF }
func (c *sconn) LocalAddr() net.Addr                { return nil }
func (c *sconn) RemoteAddr() net.Addr               { return nil }
func (c *sconn) SetDeadline(t time.Time) error      { return nil }
func (c *sconn) SetReadDeadline(t time.Time) error  { return nil }
func (c *sconn) SetWriteDeadline(t time.Time) error { return nil }

const watchdog = 20 * time.Second

// wait: the reader finished what it was given: it asks for the next frame
// ("asked") or the session closed the connection ("closed")
func (c *sconn) wait() string {
	t := time.NewTimer(watchdog)
	defer t.Stop()
	select {
	case <-c.asked:
		return "asked"
	case <-c.closedCh:
		return "closed"
	case <-t.C:
		return "timeout"
	}
}

// ownerRec is the owner's ISessionsHandler (runs on the harness goroutine, inside drain)
type ownerRec struct {
	ev      []string
	added   int
	removed int
}

func (r *ownerRec) Process(fs *cs.FrontSession, m *msgs.ClientMsg) {
	r.ev = append(r.ev, fmt.Sprintf("delivered id=%d route=%s data=%s", m.ClientReqId, hx.Hex([]byte(m.Route)), hx.Hex(m.Data)))
}
func (r *ownerRec) OnSessionAdd(fs *cs.FrontSession)    { r.added++ }
func (r *ownerRec) OnSessionRemove(fs *cs.FrontSession) { r.removed++ }

type staged struct {
	c      *sconn
	s      *session.ClientSession
	data   []byte
	script [][]byte // non-nil: frames of an `sscr` op (the session is still in StatusStart)
}

type sessEnv struct {
	sch *sche.Sche
	rec *ownerRec
	cfg *session.SessionConfig
	enc *codec.PomeloPacketEncoder
	cur *staged
}

var senv *sessEnv

func getSessEnv() *sessEnv {
	if senv == nil {
		logger.SetLogLevel(logrus.PanicLevel)
		log.SetOutput(io.Discard)
		e := &sessEnv{sch: sche.NewSche(), rec: &ownerRec{}, enc: codec.NewPomeloPacketEncoder()}
		css := impls.NewClientSessions("gate-1")
		css.SetHandler(e.rec)
		e.cfg = session.NewSessionConfig(nil) // one decoder/encoder for all sessions, as TCPComponent has it
		e.cfg.Impl = pomelo.NewSessionsImpl(e.sch, css)
		senv = e
	}
	return senv
}

// drain runs what is queued on the owner's scheduler, without blocking
func (e *sessEnv) drain() {
	for {
		select {
		case t := <-e.sch.GetChanTask():
			if t != nil {
				e.sch.DoTask(t)
			}
		default:
			return
		}
	}
}

// awaitRemove plays the owner until the session's removal was processed
func (e *sessEnv) awaitRemove(want int) bool {
	t := time.NewTimer(watchdog)
	defer t.Stop()
	for e.rec.removed < want {
		select {
		case task := <-e.sch.GetChanTask():
			if task != nil {
				e.sch.DoTask(task)
			}
		case <-t.C:
			return false
		}
	}
	return true
}

func (e *sessEnv) frame(typ packet.Type, body []byte) []byte {
	b, err := e.enc.Encode(typ, body)
	if err != nil {
		return nil
	}
	return exact(b)
}

// finish ends a session the server has not closed: the client goes away
func (e *sessEnv) finish(st *staged) bool {
	want := e.rec.removed + 1
	select {
	case <-st.c.closedCh:
	default:
		st.c.in <- frameItem{err: constants.ErrConnectionClosed}
		if st.c.wait() == "timeout" {
			return false
		}
	}
	select {
	case <-st.c.closedCh:
	case <-time.After(watchdog):
		return false
	}
	return e.awaitRemove(want)
}

const hsJSON = `{"sys":{"platform":"verif","libVersion":"0","clientBuildNumber":"0","clientVersion":"0"},"user":{}}`

func (e *sessEnv) stage(data []byte) string {
	if e.cur != nil { // a staged session that was never run: the client goes away
		e.finish(e.cur)
		e.cur = nil
	}
	c := newSconn()
	s := session.NewClientSession(c, e.cfg)
	s.Handle()
	st := &staged{c: c, s: s, data: data}
	for _, f := range [][]byte{nil, e.frame(packet.Handshake, []byte(hsJSON)), e.frame(packet.HandshakeAck, nil)} {
		if f != nil {
			c.in <- frameItem{data: f}
		}
		if r := c.wait(); r != "asked" {
			e.drain()
			e.finish(st)
			return "open-" + r
		}
	}
	e.drain()
	if got := s.GetStatus(); got != session.StatusWorking {
		e.finish(st)
		return fmt.Sprintf("status=%d", got)
	}
	e.cur = st
	return "working"
}

// stageScript opens a session and stages a script of frames; nothing is fed yet
func (e *sessEnv) stageScript(frames [][]byte) string {
	if e.cur != nil {
		e.finish(e.cur)
		e.cur = nil
	}
	c := newSconn()
	s := session.NewClientSession(c, e.cfg)
	s.Handle()
	st := &staged{c: c, s: s, script: append([][]byte{}, frames...)}
	if st.script == nil {
		st.script = [][]byte{}
	}
	if r := c.wait(); r != "asked" {
		e.drain()
		e.finish(st)
		return "open-" + r
	}
	e.drain()
	e.cur = st
	return "working"
}

// runScript feeds the staged frames one by one; the owner's events in order, then closed | open
func (e *sessEnv) runScript(st *staged) string {
	e.rec.ev = nil
	want := e.rec.removed + 1
	for _, f := range st.script {
		st.c.in <- frameItem{data: f}
		r := st.c.wait()
		e.drain()
		switch r {
		case "timeout":
			return "timeout"
		case "closed":
			if !e.awaitRemove(want) {
				return "timeout"
			}
			return strings.Join(append(append([]string{}, e.rec.ev...), "closed"), " ; ")
		}
	}
	out := append(append([]string{}, e.rec.ev...), "open")
	if !e.finish(st) {
		return "timeout"
	}
	return strings.Join(out, " ; ")
}

func (e *sessEnv) run() string {
	st := e.cur
	if st == nil {
		return "none"
	}
	e.cur = nil
	if st.script != nil {
		return e.runScript(st)
	}
	e.rec.ev = nil
	want := e.rec.removed + 1
	f := e.frame(packet.Data, st.data)
	if f == nil {
		e.finish(st)
		return "encerr"
	}
	st.c.in <- frameItem{data: f}
	r := st.c.wait()
	e.drain()
	var out []string
	switch r {
	case "timeout":
		return "timeout"
	case "closed":
		if !e.awaitRemove(want) {
			return "timeout"
		}
		out = append(append(out, e.rec.ev...), "closed")
	case "asked":
		out = append(out, e.rec.ev...)
		if len(out) == 0 {
			out = append(out, "ignored")
		}
		if !e.finish(st) {
			return "timeout"
		}
	}
	return strings.Join(out, " ; ")
}

// ---- stream layer: the real tcpPlayerConn.GetNextMessage over a fragmenting net.Conn ----

// fragConn delivers a byte stream in the given fragments: one Read never crosses a fragment
// boundary (what a TCP socket does with segments that arrive one by one); io.EOF at the end.
type fragConn struct {
	frags [][]byte
}

func (c *fragConn) Read(p []byte) (int, error) {
	for len(c.frags) > 0 && len(c.frags[0]) == 0 {
		c.frags = c.frags[1:]
	}
	if len(c.frags) == 0 {
		return 0, io.EOF
	}
	if len(p) == 0 {
		return 0, nil
	}
	n := copy(p, c.frags[0])
	c.frags[0] = c.frags[0][n:]
	return n, nil
}
func (c *fragConn) Write(b []byte) (int, error)        { return len(b), nil }
func (c *fragConn) Close() error                       { return nil }
func (c *fragConn) LocalAddr() net.Addr                { return nil }
func (c *fragConn) RemoteAddr() net.Addr               { return nil }
func (c *fragConn) SetDeadline(t time.Time) error      { return nil }
func (c *fragConn) SetReadDeadline(t time.Time) error  { return nil }
func (c *fragConn) SetWriteDeadline(t time.Time) error { return nil }

// readStream calls GetNextMessage until it returns no message; the PlayerConn is the one the real accept loop of
// acceptor.TCPAcceptor builds around the fragConn (rig_test.go; no unexported identifier of the package is named)
func readStream(frags [][]byte) (msgs [][]byte, end string) {
	fc := &fragConn{}
	total := 0
	for _, f := range frags {
		fc.frags = append(fc.frags, exact(f))
		total += len(f)
	}
	pc := getAccRig().playerConn(fc)
	for i := 0; i <= total+1; i++ {
		m, err := pc.GetNextMessage()
		if err == constants.ErrConnectionClosed {
			return msgs, "closed"
		}
		if err != nil {
			return msgs, "err"
		}
		msgs = append(msgs, m)
	}
	return msgs, "loop"
}

// cutStream splits b at the positions given by a `cut=` value: "a,b,c" | "all" | "every:K" | ""
func cutStream(b []byte, spec string) [][]byte {
	var pos []int
	switch {
	case spec == "all":
		for i := 1; i < len(b); i++ {
			pos = append(pos, i)
		}
	case strings.HasPrefix(spec, "every:"):
		k := 0
		fmt.Sscanf(spec[6:], "%d", &k)
		for i := k; k > 0 && i < len(b); i += k {
			pos = append(pos, i)
		}
	case spec != "":
		for _, w := range strings.Split(spec, ",") {
			k := -1
			fmt.Sscanf(w, "%d", &k)
			if k > 0 && k < len(b) {
				pos = append(pos, k)
			}
		}
		sort.Ints(pos)
	}
	var out [][]byte
	last := 0
	for _, p := range pos {
		if p > last {
			out = append(out, b[last:p])
			last = p
		}
	}
	return append(out, b[last:])
}

// zpayload: n compressible bytes
func zpayload(n int) []byte {
	b := make([]byte, n)
	for i := range b {
		b[i] = byte('a' + i%7)
	}
	return b
}

// exec interprets one op line against the real code.
// whiteboxFor: can the op be run?  srt/gnm/mchain need the server-side rig (the real PlayerConn of the TCP acceptor
// around the harness's fragConn), crl the client-side rig (the real read loop of pomelonet/client on a stand-in socket)
func whiteboxFor(op string) bool {
	switch {
	case strings.HasPrefix(op, "srt "), strings.HasPrefix(op, "gnm "), strings.HasPrefix(op, "mchain "):
		return getAccRig().mode != "unavailable"
	case strings.HasPrefix(op, "crl "):
		return getCliRig().mode != "unavailable"
	}
	return true
}

func exec(op string) string {
	ws := hx.Words(op)
	if len(ws) == 0 {
		return "bad-op"
	}
	if strings.HasPrefix(ws[0], "<harness-exit") {
		// replay of a run in which the process died: the op it died in is the step after the last
		// recorded op; for a staged session that is `sgo`
		if senv != nil && senv.cur != nil {
			return hx.Guard(func() string { return senv.run() })
		}
		return "bad-op"
	}
	switch ws[0] {
	case "dict":
		return hx.Guard(func() string {
			err := message.SetDictionary(map[string]uint16{string(hx.KVHex(ws, "route")): uint16(hx.KVInt(ws, "code"))})
			if err != nil {
				return "dup"
			}
			return "ok"
		})
	case "dictm":
		// one SetDictionary call with several entries (issued without duplicates: the outcome
		// does not depend on the iteration order of the map)
		return hx.Guard(func() string {
			d := map[string]uint16{}
			for _, w := range ws[1:] {
				if !strings.HasPrefix(w, "e=") {
					continue
				}
				parts := strings.SplitN(w[2:], ":", 2)
				if len(parts) != 2 {
					continue
				}
				var c int
				fmt.Sscanf(parts[1], "%d", &c)
				d[string(hx.KVHex([]string{"x=" + parts[0]}, "x"))] = uint16(c)
			}
			if err := message.SetDictionary(d); err != nil {
				return "dup"
			}
			return "ok"
		})
	case "dictget":
		return hx.Guard(func() string {
			d := message.GetDictionary()
			type ent struct {
				r string
				c uint16
			}
			var es []ent
			for r, c := range d {
				es = append(es, ent{r, c})
			}
			sort.Slice(es, func(i, j int) bool { return es[i].c < es[j].c })
			var sb strings.Builder
			sb.WriteString("ok")
			for _, e := range es {
				fmt.Fprintf(&sb, " %s:%d", hx.Hex([]byte(e.r)), e.c)
			}
			return sb.String()
		})
	case "pdec2":
		// two calls on ONE decoder; the first call's result is rendered when it is returned and
		// again after the second call (the kept packets, not copies)
		return hx.Guard(func() string {
			d := codec.NewPomeloPacketDecoder()
			ina, inb := exact(hx.KVHex(ws, "a")), exact(hx.KVHex(ws, "b"))
			pa, ea := d.Decode(ina)
			r1 := showDec(pa, ea)
			recycle(ina) // the caller's read buffer is reused
			pb, eb := d.Decode(inb)
			r2 := showDec(pb, eb)
			recycle(inb)
			return r1 + " | " + r2 + " | " + showDec(pa, ea)
		})
	case "pdecs":
		return hx.Guard(func() string {
			in := exact(hx.KVHex(ws, "data"))
			ps, err := sharedDec.Decode(in)
			pushKept(kept{ps, err})
			r := showDec(ps, err)
			recycle(in)
			return r
		})
	case "pchk":
		return hx.Guard(func() string {
			k := hx.KVInt(ws, "k")
			if k >= len(window) {
				return "none"
			}
			return showDec(window[k].ps, window[k].err)
		})
	case "srt":
		return hx.Guard(func() string {
			var all []byte
			for _, w := range ws[1:] {
				if !strings.HasPrefix(w, "p=") {
					continue
				}
				parts := strings.SplitN(w[2:], ":", 2)
				var t int
				fmt.Sscanf(parts[0], "%d", &t)
				body := hx.KVHex([]string{"x=" + parts[1]}, "x")
				b, err := codec.NewPomeloPacketEncoder().Encode(packet.Type(t), body)
				if err != nil {
					return "encerr"
				}
				all = append(all, b...)
			}
			cut, _ := hx.KV(ws, "cut")
			msgs, end := readStream(cutStream(all, cut))
			var sb strings.Builder
			sb.WriteString("ok")
			dec := codec.NewPomeloPacketDecoder()
			for _, m := range msgs {
				ps, err := dec.Decode(m)
				if err != nil {
					sb.WriteString(" bad")
					continue
				}
				for _, p := range ps {
					fmt.Fprintf(&sb, " p=%d:%s", p.Type, hx.Hex(p.Data))
				}
			}
			return sb.String() + " end=" + end
		})
	case "gnm":
		return hx.Guard(func() string {
			var frags [][]byte
			v, _ := hx.KV(ws, "frag")
			for _, f := range strings.Split(v, ",") {
				frags = append(frags, hx.KVHex([]string{"x=" + f}, "x"))
			}
			msgs, end := readStream(frags)
			var sb strings.Builder
			sb.WriteString("ok")
			for _, m := range msgs {
				sb.WriteString(" m=" + hx.Hex(m))
			}
			return sb.String() + " end=" + end
		})
	case "zrt":
		return hx.Guard(func() string {
			data := zpayload(hx.KVInt(ws, "n"))
			mode, _ := hx.KV(ws, "mode")
			var back []byte
			if mode == "msg" {
				// Encode replaces m.Data by the deflated bytes: hand it a copy
				m := &message.Message{Type: message.Push, Route: "big.payload", Data: append([]byte(nil), data...)}
				b, err := (&message.MessagesEncoder{DataCompression: true}).Encode(m)
				if err != nil {
					return "err"
				}
				d, err := message.Decode(b)
				if err != nil {
					return "err"
				}
				back = d.Data
			} else {
				z, err := compression.DeflateData(data)
				if err != nil {
					return "err"
				}
				if back, err = compression.InflateData(z); err != nil {
					return "err"
				}
			}
			return fmt.Sprintf("ok out=%d eq=%d", len(back), hx.B2i(string(back) == string(data)))
		})
	case "mchain":
		// sender: message Encode + packet Encode of every message, one byte stream; receiver: GetNextMessage
		// over the fragmented stream, packet Decode of every frame, message.Decode of every Data body.
		// Every decoded *Message is HELD until the whole stream was read and rendered only then.
		return hx.Guard(func() string {
			enc := &message.MessagesEncoder{DataCompression: hx.KVInt(ws, "comp") == 1}
			var all []byte
			for _, w := range ws[1:] {
				if !strings.HasPrefix(w, "m=") {
					continue
				}
				f := strings.Split(w[2:], ":")
				if len(f) != 6 {
					return "bad-op"
				}
				var typ int
				var id uint64
				fmt.Sscanf(f[0], "%d", &typ)
				fmt.Sscanf(f[1], "%d", &id)
				m := &message.Message{Type: message.Type(typ), ID: uint(id), Route: string(hx.KVHex([]string{"x=" + f[2]}, "x")),
					Data: exact(hx.KVHex([]string{"x=" + f[3]}, "x")), Err: f[4] == "1"}
				b, err := enc.Encode(m)
				if err != nil {
					return "encerr"
				}
				fr, err := codec.NewPomeloPacketEncoder().Encode(packet.Data, b)
				if err != nil {
					return "encerr"
				}
				all = append(all, fr...)
			}
			cut, _ := hx.KV(ws, "cut")
			frames, end := readStream(cutStream(all, cut))
			dec := codec.NewPomeloPacketDecoder()
			type held struct {
				m   *message.Message
				bad string
			}
			var hs []held
			for _, fr := range frames {
				ps, err := dec.Decode(fr)
				if err != nil {
					hs = append(hs, held{bad: "bad"})
					continue
				}
				for _, p := range ps {
					if p.Type != packet.Data {
						hs = append(hs, held{bad: fmt.Sprintf("p%d", p.Type)})
						continue
					}
					m, err := message.Decode(p.Data)
					if err != nil {
						hs = append(hs, held{bad: "m=err"})
						continue
					}
					hs = append(hs, held{m: m})
				}
			}
			var sb strings.Builder
			sb.WriteString("ok")
			for _, h := range hs {
				if h.m == nil {
					sb.WriteString(" " + h.bad)
					continue
				}
				fmt.Fprintf(&sb, " m=%d:%d:%s:%s:%d", h.m.Type, uint64(h.m.ID), hx.Hex([]byte(h.m.Route)), hx.Hex(h.m.Data), hx.B2i(h.m.Err))
			}
			return sb.String() + " end=" + end
		})
	case "rtd":
		// the process-global dictionary grows between Encode and Decode
		return hx.Guard(func() string {
			m := &message.Message{Type: message.Type(hx.KVInt(ws, "typ")), ID: uint(hx.KVU64(ws, "id")),
				Route: string(hx.KVHex(ws, "route")), Data: exact(hx.KVHex(ws, "data")), Err: hx.KVInt(ws, "err") == 1}
			b, err := (&message.MessagesEncoder{DataCompression: hx.KVInt(ws, "comp") == 1}).Encode(m)
			if err != nil {
				return "err"
			}
			d := "ok"
			if err := message.SetDictionary(map[string]uint16{string(hx.KVHex(ws, "key")): uint16(hx.KVInt(ws, "code"))}); err != nil {
				d = "dup"
			}
			return "ok " + hx.Hex(b) + " | " + d + " | " + doDecode(b)
		})
	case "enc2":
		// Encode is handed the SAME *Message twice (a caller that retries or broadcasts one object):
		// with DataCompression the first call replaces message.Data by the deflated bytes
		return hx.Guard(func() string {
			m := &message.Message{Type: message.Type(hx.KVInt(ws, "typ")), ID: uint(hx.KVU64(ws, "id")),
				Route: string(hx.KVHex(ws, "route")), Data: exact(hx.KVHex(ws, "data")), Err: hx.KVInt(ws, "err") == 1}
			enc := &message.MessagesEncoder{DataCompression: hx.KVInt(ws, "comp") == 1}
			b1, err := enc.Encode(m)
			if err != nil {
				return "err"
			}
			b1 = exact(b1)
			b2, err := enc.Encode(m)
			if err != nil {
				return "ok " + hx.Hex(b1) + " | err"
			}
			return "ok " + hx.Hex(b1) + " | ok " + hx.Hex(b2) + " | " + doDecode(b2)
		})
	case "crl":
		// the decoder's second caller: the read loop of pomelonet/client accumulates socket reads in ONE bytes.Buffer,
		// hands buf.Bytes() to Decode and drops what was consumed; the packets of earlier rounds are still queued
		// while later reads are written into the same buffer.  The REAL loop runs (client.New + ConnectTo) on the
		// harness's gated stand-in socket and publishes into the harness's queue: see rig_test.go (no unexported
		// identifier of the client package is named)
		return hx.Guard(func() string {
			var all []byte
			for _, w := range ws[1:] {
				if !strings.HasPrefix(w, "p=") {
					continue
				}
				parts := strings.SplitN(w[2:], ":", 2)
				var t int
				fmt.Sscanf(parts[0], "%d", &t)
				b, err := codec.NewPomeloPacketEncoder().Encode(packet.Type(t), hx.KVHex([]string{"x=" + parts[1]}, "x"))
				if err != nil {
					return "encerr"
				}
				all = append(all, b...)
			}
			cut, _ := hx.KV(ws, "cut")
			fc := &fragConn{}
			for _, f := range cutStream(all, cut) {
				if len(f) > 0 && len(f) < 1024 { // one conn.Read (1024-byte scratch) per fragment
					fc.frags = append(fc.frags, exact(f))
				} else if len(f) >= 1024 {
					return "bad-op"
				}
			}
			var queued []*packet.Packet
			var first strings.Builder
			first.WriteString("ok")
			if getCliRig().readLoop(fc.frags, func(p *packet.Packet) {
				fmt.Fprintf(&first, " p=%d:%s", p.Type, hx.Hex(p.Data))
				queued = append(queued, p)
			}) {
				first.WriteString(" readerr")
			}
			return first.String() + " | " + showPackets(queued)
		})
	case "sscr":
		return hx.Guard(func() string {
			e := getSessEnv()
			enc := &message.MessagesEncoder{DataCompression: hx.KVInt(ws, "comp") == 1}
			frames := [][]byte{}
			for _, w := range ws[1:] {
				switch {
				case strings.HasPrefix(w, "hs="):
					frames = append(frames, e.frame(packet.Handshake, hx.KVHex([]string{"x=" + w[3:]}, "x")))
				case w == "ack":
					frames = append(frames, e.frame(packet.HandshakeAck, nil))
				case w == "hb":
					frames = append(frames, e.frame(packet.Heartbeat, nil))
				case strings.HasPrefix(w, "f="):
					frames = append(frames, exact(hx.KVHex([]string{"x=" + w[2:]}, "x")))
				case strings.HasPrefix(w, "m="):
					f := strings.Split(w[2:], ":")
					if len(f) != 6 {
						return "bad-op"
					}
					var typ int
					var id uint64
					fmt.Sscanf(f[0], "%d", &typ)
					fmt.Sscanf(f[1], "%d", &id)
					m := &message.Message{Type: message.Type(typ), ID: uint(id), Route: string(hx.KVHex([]string{"x=" + f[2]}, "x")),
						Data: exact(hx.KVHex([]string{"x=" + f[3]}, "x")), Err: f[4] == "1"}
					b, err := enc.Encode(m)
					if err != nil {
						return "encerr"
					}
					fr := e.frame(packet.Data, b)
					if fr == nil {
						return "encerr"
					}
					frames = append(frames, fr)
				}
			}
			return e.stageScript(frames)
		})
	case "sess":
		return hx.Guard(func() string { return getSessEnv().stage(hx.KVHex(ws, "data")) })
	case "sgo":
		return hx.Guard(func() string { return getSessEnv().run() })
	case "enc", "rt":
		return hx.Guard(func() string {
			m := &message.Message{Type: message.Type(hx.KVInt(ws, "typ")), ID: uint(hx.KVU64(ws, "id")),
				Route: string(hx.KVHex(ws, "route")), Data: exact(hx.KVHex(ws, "data")), Err: hx.KVInt(ws, "err") == 1}
			enc := &message.MessagesEncoder{DataCompression: hx.KVInt(ws, "comp") == 1}
			b, err := enc.Encode(m)
			if err != nil {
				return "err"
			}
			if ws[0] == "enc" {
				return "ok " + hx.Hex(b)
			}
			return "ok " + hx.Hex(b) + " | " + doDecode(b)
		})
	case "dec":
		return doDecode(hx.KVHex(ws, "data"))
	case "penc":
		return hx.Guard(func() string {
			b, err := codec.NewPomeloPacketEncoder().Encode(packet.Type(hx.KVInt(ws, "typ")), hx.KVHex(ws, "data"))
			if err != nil {
				return "err"
			}
			return "ok " + hx.Hex(b)
		})
	case "pdec":
		return hx.Guard(func() string {
			ps, err := codec.NewPomeloPacketDecoder().Decode(exact(hx.KVHex(ws, "data")))
			if err != nil {
				return "err"
			}
			return showPackets(ps)
		})
	case "plimit":
		// bodies around the 3-byte length limit: encode, then decode the stream again
		return hx.Guard(func() string {
			n := hx.KVInt(ws, "n")
			body := make([]byte, n)
			for i := range body {
				body[i] = byte(i * 7)
			}
			b, err := codec.NewPomeloPacketEncoder().Encode(packet.Type(hx.KVInt(ws, "typ")), body)
			if err != nil {
				return "err"
			}
			rt := "bad"
			ps, derr := codec.NewPomeloPacketDecoder().Decode(b)
			if derr == nil && len(ps) == 1 && int(ps[0].Type) == hx.KVInt(ws, "typ") && string(ps[0].Data) == string(body) {
				rt = "ok"
			}
			return "ok hdr=" + hx.Hex(b[:4]) + " rt=" + rt
		})
	case "prt":
		return hx.Guard(func() string {
			var all []byte
			for _, w := range ws[1:] {
				if !strings.HasPrefix(w, "p=") {
					continue
				}
				parts := strings.SplitN(w[2:], ":", 2)
				var t int
				fmt.Sscanf(parts[0], "%d", &t)
				body := hx.KVHex([]string{"x=" + parts[1]}, "x")
				b, err := codec.NewPomeloPacketEncoder().Encode(packet.Type(t), body)
				if err != nil {
					return "encerr"
				}
				all = append(all, b...)
			}
			ps, err := codec.NewPomeloPacketDecoder().Decode(exact(all))
			if err != nil {
				return "err"
			}
			return showPackets(ps)
		})
	}
	return "bad-op"
}

// decOp builds a `dec` op line; for gzip-flagged inputs it lists every body
// suffix that the real zlib inflates (the model's abstract `inflate`).
func decOp(data []byte) string {
	op := "dec data=" + hx.Hex(data)
	if len(data) >= 2 && data[0]&0x10 != 0 {
		var parts []string
		lim := len(data)
		if lim > 300 {
			lim = 300
		}
		for k := 1; k <= lim; k++ {
			if d, err := compression.InflateData(data[k:]); err == nil {
				parts = append(parts, fmt.Sprintf("%d:%s", len(data)-k, hx.Hex(d)))
			}
		}
		if len(parts) > 0 {
			op += " infl=" + strings.Join(parts, ",")
		}
	}
	return op
}

var ids = []uint64{0, 1, 127, 128, 129, 16383, 16384, 300, 1<<21 - 1, 1 << 21, 1<<32 - 1, 1 << 32, 1<<63 - 1, 1 << 63, 1<<64 - 1}

type gen struct {
	t      *hx.T
	routes [][]byte        // dictionary routes (as stored: trimmed)
	hasR   map[string]bool // trimmed routes in the dictionary
	hasC   map[int]bool    // codes in the dictionary
	codes  []int           // the same, in insertion order
}

// blanks the generator puts around dictionary keys.  strings.TrimSpace also trims \v, \f and
// some non-ASCII runes; keys are ASCII without \v/\f, where TrimSpace = trimming these four.
const blanks = " \t\n\r"

func trimKey(k string) string { return strings.Trim(k, blanks) }

// note keeps the generator's picture of the dictionary in step with the ops that ran
// (corpus ops included), so that multi-entry calls can be made duplicate-free
func (g *gen) note(op, obs string) {
	ws := hx.Words(op)
	if len(ws) > 0 && ws[0] == "rtd" && strings.Contains(obs, " | ok | ") {
		obs = "ok"
	}
	if len(ws) == 0 || obs != "ok" {
		return
	}
	add := func(key []byte, code int) {
		r := trimKey(string(key))
		if !g.hasR[r] {
			g.routes = append(g.routes, []byte(r))
		}
		if !g.hasC[code] {
			g.codes = append(g.codes, code)
		}
		g.hasR[r], g.hasC[code] = true, true
	}
	switch ws[0] {
	case "dict":
		add(hx.KVHex(ws, "route"), hx.KVInt(ws, "code"))
	case "rtd":
		add(hx.KVHex(ws, "key"), hx.KVInt(ws, "code"))
	case "dictm":
		for _, w := range ws[1:] {
			if parts := strings.SplitN(strings.TrimPrefix(w, "e="), ":", 2); strings.HasPrefix(w, "e=") && len(parts) == 2 {
				var c int
				fmt.Sscanf(parts[1], "%d", &c)
				add(hx.KVHex([]string{"x=" + parts[0]}, "x"), c)
			}
		}
	}
}

func (g *gen) pad() string {
	t := g.t
	n := t.Pick(0, 0, 1, 1, 2, 3)
	b := make([]byte, n)
	for i := range b {
		b[i] = blanks[t.R.Intn(len(blanks))]
	}
	return string(b)
}

// freshKey: a dictionary key (ASCII; possibly blank-padded, possibly all blank) whose trimmed
// form is not in the dictionary and not in `taken`, and a free code
func (g *gen) freshKey(taken map[string]bool, takenC map[int]bool) (string, int) {
	t := g.t
	const alpha = "abcdefghijklmnopqrstuvwxyzABCXYZ0123456789._-"
	for {
		n := t.Pick(0, 1, 2, 3, 5, 8, 13, 21)
		core := make([]byte, n)
		for i := range core {
			core[i] = alpha[t.R.Intn(len(alpha))]
			if i > 0 && i < n-1 && t.R.Intn(8) == 0 {
				core[i] = blanks[t.R.Intn(len(blanks))] // inner blanks stay
			}
		}
		code := t.R.Intn(65536)
		if t.R.Intn(4) == 0 {
			code = t.Pick(0, 2, 254, 257, 511, 512, 32767, 32768, 65534)
		}
		r := string(core)
		if g.hasR[r] || taken[r] || g.hasC[code] || takenC[code] {
			continue
		}
		key := r
		if t.R.Intn(3) != 0 {
			key = g.pad() + r + g.pad()
		}
		if key != r {
			t.Count("dict.key.padded")
		}
		if r == "" {
			t.Count("dict.key.allblank")
		}
		return key, code
	}
}

func (g *gen) dictOp() string {
	t := g.t
	switch t.R.Intn(5) {
	case 0: // duplicate of an existing route (written with other padding) or of an existing code
		if len(g.routes) > 0 {
			t.Count("dict.dup")
			if t.R.Intn(2) == 0 {
				_, c := g.freshKey(nil, nil)
				return fmt.Sprintf("dict route=%s code=%d", hx.Hex([]byte(g.pad()+string(g.routes[t.R.Intn(len(g.routes))])+g.pad())), c)
			}
			k, _ := g.freshKey(nil, nil)
			return fmt.Sprintf("dict route=%s code=%d", hx.Hex([]byte(k)), g.codes[t.R.Intn(len(g.codes))])
		}
	case 1, 2: // several entries in one call, no duplicates
		n := 2 + t.R.Intn(4)
		taken, takenC := map[string]bool{}, map[int]bool{}
		var sb strings.Builder
		sb.WriteString("dictm")
		for i := 0; i < n; i++ {
			k, c := g.freshKey(taken, takenC)
			taken[trimKey(k)], takenC[c] = true, true
			fmt.Fprintf(&sb, " e=%s:%d", hx.Hex([]byte(k)), c)
		}
		t.Count("dict.multi")
		return sb.String()
	}
	k, c := g.freshKey(nil, nil)
	t.Count("dict.single")
	return fmt.Sprintf("dict route=%s code=%d", hx.Hex([]byte(k)), c)
}

// sessOp stages one Data packet for a fresh session
func sessOp(data []byte) string {
	return "sess" + strings.TrimPrefix(decOp(data), "dec")
}

// framesFor: a packet stream for the long-lived decoder (mostly well-formed, similar sizes so
// that a reused buffer would be overwritten in place)
func (g *gen) framesFor() []byte {
	t := g.t
	if t.R.Intn(6) == 0 {
		return g.badStream()
	}
	var all []byte
	for i := 0; i < 1+t.R.Intn(3); i++ {
		b, _ := codec.NewPomeloPacketEncoder().Encode(packet.Type(1+t.R.Intn(5)), t.Bytes(t.Pick(0, 1, 3, 8, 20, 33, 70)))
		all = append(all, b...)
	}
	return all
}

// chainOp: several messages sent one after the other on one connection (most with payload compression and
// compressible payloads of different content and similar size, so that a recycled output buffer would be
// overwritten in place), the stream cut into fragments
func (g *gen) chainOp() string {
	t := g.t
	n := 2 + t.R.Intn(4)
	comp := 1
	if t.R.Intn(5) == 0 {
		comp = 0
	}
	var sb strings.Builder
	fmt.Fprintf(&sb, "mchain comp=%d", comp)
	gz := 0
	for i := 0; i < n; i++ {
		typ := t.R.Intn(4)
		id := ids[t.R.Intn(len(ids))]
		var route []byte
		switch t.R.Intn(4) {
		case 0:
			if len(g.routes) > 0 {
				route = g.routes[t.R.Intn(len(g.routes))]
			}
		case 1:
			route = []byte("chat.room.say")
		default:
			route = t.Bytes(t.R.Intn(12))
		}
		var data []byte
		switch t.R.Intn(5) {
		case 0:
			data = t.Bytes(t.R.Intn(40))
		default:
			data = make([]byte, t.Pick(40, 64, 64, 100, 200, 300, 700))
			base := byte('a' + 3*i + t.R.Intn(2))
			for j := range data {
				data[j] = base + byte(j%3)
			}
		}
		defl, _ := compression.DeflateData(data)
		if back, err := compression.InflateData(defl); err != nil || string(back) != string(data) {
			t.Count("ASSUMPTION-BROKEN.zlib")
		}
		if comp == 1 && len(defl) < len(data) {
			gz++
		}
		fmt.Fprintf(&sb, " m=%d:%d:%s:%s:%d:%s", typ, id, hx.Hex(route), hx.Hex(data), t.R.Intn(2), hx.Hex(defl))
	}
	if gz >= 2 {
		t.Count("mchain.gzipped>=2")
	}
	cut := ""
	switch t.R.Intn(4) {
	case 0:
	case 1:
		cut = fmt.Sprintf("every:%d", t.Pick(1, 3, 7, 64, 536))
	default:
		var cs []string
		for i := 0; i < 1+t.R.Intn(6); i++ {
			cs = append(cs, fmt.Sprint(1+t.R.Intn(400)))
		}
		cut = strings.Join(cs, ",")
	}
	return sb.String() + " cut=" + cut
}

// rtdOp: a message is encoded, the dictionary gains an entry (half of the time for the very route of the message,
// which was spelled out on the wire), then the bytes are decoded
func (g *gen) rtdOp() string {
	t := g.t
	op, _ := g.msgOp("rtd")
	ws := hx.Words(op)
	route := string(hx.KVHex(ws, "route"))
	key, code := g.freshKey(nil, nil)
	printable := true
	for i := 0; i < len(route); i++ {
		if route[i] < 0x21 || route[i] > 0x7e {
			printable = false // keys stay inside the ASCII range on which TrimSpace is modelled
		}
	}
	if t.R.Intn(2) == 0 {
		route = "chat.room.say"
		if t.R.Intn(2) == 0 {
			route = fmt.Sprintf("late.route.%d", t.R.Intn(1000))
		}
		op = strings.Replace(op, " route="+hx.Hex(hx.KVHex(ws, "route"))+" ", " route="+hx.Hex([]byte(route))+" ", 1)
		printable = true
	}
	if t.R.Intn(3) != 0 && printable && !g.hasR[route] && len(route) < 40 {
		key = g.pad() + route + g.pad()
		t.Count("rtd.own-route-enters-dictionary")
	}
	return fmt.Sprintf("%s key=%s code=%d", op, hx.Hex([]byte(key)), code)
}

// enc2Op: one message object encoded twice
func (g *gen) enc2Op() string {
	op, data := g.msgOp("enc2")
	defl, _ := compression.DeflateData(data)
	defl2, _ := compression.DeflateData(defl)
	return op + " defl2=" + hx.Hex(defl2)
}

// crlOp: frames for the client-side read loop, cut at explicit positions (every fragment 1..1000 bytes)
func (g *gen) crlOp() string {
	t := g.t
	n := 1 + t.R.Intn(6)
	var sb strings.Builder
	sb.WriteString("crl")
	total := 0
	var starts []int
	for i := 0; i < n; i++ {
		sz := t.Pick(0, 1, 3, 8, 20, 20, 33, 70, 70, 200)
		starts = append(starts, total)
		total += 4 + sz
		fmt.Fprintf(&sb, " p=%d:%s", 1+t.R.Intn(5), hx.Hex(t.Bytes(sz)))
	}
	cutSet := map[int]bool{}
	switch t.R.Intn(5) {
	case 0, 1: // one frame per read
		for _, st := range starts[1:] {
			cutSet[st] = true
		}
		t.Count("crl.cut.frames")
	case 2: // a read ends inside a header or a body
		for _, st := range starts {
			cutSet[st+1+t.R.Intn(6)] = true
		}
		t.Count("crl.cut.inside")
	case 3:
		for i := 0; i < 1+t.R.Intn(8); i++ {
			cutSet[1+t.R.Intn(total)] = true
		}
		t.Count("crl.cut.random")
	default: // several frames per read
		for _, st := range starts[1:] {
			if t.R.Intn(2) == 0 {
				cutSet[st] = true
			}
		}
		t.Count("crl.cut.some-frames")
	}
	for p := 1000; p < total; p += 1000 { // no fragment longer than the client's 1024-byte scratch
		cutSet[p] = true
	}
	var pos []int
	for p := range cutSet {
		if p > 0 && p < total {
			pos = append(pos, p)
		}
	}
	sort.Ints(pos)
	var cs []string
	for _, p := range pos {
		cs = append(cs, fmt.Sprint(p))
	}
	return sb.String() + " cut=" + strings.Join(cs, ",")
}

var hsBodies = []string{hsJSON, `{}`, `{"sys":{},"user":{"a":1}}`, ` {"sys":null} `, `null`, `[]`, `{"sys":`, ``, `{"sys":5}`, `x`, `{"user":[1,2]}`, `7`, `"s"`}

func hsAccepted(b []byte) bool { return json.Unmarshal(b, &session.HandshakeData{}) == nil }

// scriptOp: a whole session as the client's byte frames.  Either the protocol's own order (handshake, ack, then
// messages) or anything else: data before the ack, ack without handshake, a bad handshake, heartbeats, several
// packets in one frame (what the WS acceptor hands over is whatever the client sent), malformed messages
func (g *gen) scriptOp() string {
	t := g.t
	comp := t.R.Intn(2)
	var toks []string
	ok := map[string]bool{}
	noteHs := func(b []byte) {
		if hsAccepted(b) {
			ok[hx.Hex(b)] = true
		}
	}
	msgTok := func(i int) string {
		var route []byte
		switch t.R.Intn(3) {
		case 0:
			if len(g.routes) > 0 {
				route = g.routes[t.R.Intn(len(g.routes))]
			}
		case 1:
			route = []byte("chat.room.say")
		default:
			route = t.Bytes(t.R.Intn(12))
		}
		data := t.Bytes(t.R.Intn(30))
		if t.R.Intn(2) == 0 {
			data = make([]byte, t.Pick(40, 64, 100, 300))
			for j := range data {
				data[j] = byte('a'+3*i) + byte(j%3)
			}
		}
		defl, _ := compression.DeflateData(data)
		return fmt.Sprintf("m=%d:%d:%s:%s:%d:%s", t.R.Intn(4), ids[t.R.Intn(len(ids))], hx.Hex(route), hx.Hex(data), t.R.Intn(2), hx.Hex(defl))
	}
	// a message body for a raw frame: gzip bit cleared (the model's inflate table has no entry for it)
	rawBody := func() []byte {
		var b []byte
		switch t.R.Intn(4) {
		case 0:
			b = g.validEncoding()
		case 1:
			b = g.validEncoding()
			b = b[:t.R.Intn(len(b)+1)]
		case 2:
			b = g.varintStress()
		default:
			b = t.Bytes(t.R.Intn(12))
		}
		if len(b) > 0 {
			b[0] &^= 0x10
		}
		return b
	}
	if t.R.Intn(3) == 0 { // the protocol's own order
		t.Count("sscr.regular")
		hs := []byte(hsBodies[t.R.Intn(3)])
		noteHs(hs)
		toks = append(toks, "hs="+hx.Hex(hs), "ack")
		for i := 0; i < 1+t.R.Intn(4); i++ {
			toks = append(toks, msgTok(i))
		}
	} else {
		t.Count("sscr.irregular")
		switch t.R.Intn(4) { // half of the irregular scripts reach Working first
		case 0:
			toks = append(toks, "ack")
		case 1:
			hs := []byte(hsBodies[t.R.Intn(3)])
			noteHs(hs)
			toks = append(toks, "hs="+hx.Hex(hs), "ack")
		}
		for i := 0; i < 1+t.R.Intn(6); i++ {
			switch t.R.Intn(8) {
			case 0:
				hs := []byte(hsBodies[t.R.Intn(len(hsBodies))])
				noteHs(hs)
				toks = append(toks, "hs="+hx.Hex(hs))
			case 1, 2:
				toks = append(toks, "ack")
			case 3:
				toks = append(toks, "hb")
			case 4:
				toks = append(toks, msgTok(i))
			case 5: // several packets in one frame
				var all []byte
				for k := 0; k < 1+t.R.Intn(4); k++ {
					typ := packet.Type(1 + t.R.Intn(5))
					var body []byte
					switch typ {
					case packet.Handshake:
						body = []byte(hsBodies[t.R.Intn(len(hsBodies))])
						noteHs(body)
					case packet.Data:
						body = rawBody()
					}
					b, _ := codec.NewPomeloPacketEncoder().Encode(typ, body)
					all = append(all, b...)
				}
				t.Count("sscr.multi-packet-frame")
				toks = append(toks, "f="+hx.Hex(all))
			case 6: // malformed frame
				toks = append(toks, "f="+hx.Hex(g.badStream()))
			default: // one Data packet with a raw body
				b, _ := codec.NewPomeloPacketEncoder().Encode(packet.Data, rawBody())
				toks = append(toks, "f="+hx.Hex(b))
			}
		}
	}
	var oks []string
	for k := range ok {
		oks = append(oks, k)
	}
	sort.Strings(oks)
	return fmt.Sprintf("sscr comp=%d hsok=%s %s", comp, strings.Join(oks, ","), strings.Join(toks, " "))
}

func (g *gen) route() []byte {
	t := g.t
	switch t.R.Intn(6) {
	case 0:
		return nil
	case 1:
		if len(g.routes) > 0 {
			t.Count("route.dict")
			return g.routes[t.R.Intn(len(g.routes))]
		}
	case 2:
		t.Count("route.255")
		return t.Bytes(255)
	case 3:
		return []byte("chat.room.say")
	}
	return t.Bytes(1 + t.R.Intn(20))
}

func (g *gen) payload() []byte {
	t := g.t
	max := 300
	if t.Thorough() {
		max = 70000
	}
	switch t.R.Intn(6) {
	case 0:
		return nil
	case 5: // payloads that LOOK compressed (zlib/gzip magic) but are plain data, or really are deflated data
		t.Count("payload.zlibmagic")
		switch t.R.Intn(3) {
		case 0:
			d, _ := compression.DeflateData(t.Bytes(t.R.Intn(40)))
			return d
		case 1:
			magic := [][]byte{{0x78, 0x01}, {0x78, 0x5e}, {0x78, 0x9c}, {0x78, 0xda}, {0x1f, 0x8b}}[t.R.Intn(5)]
			return append(append([]byte{}, magic...), t.Bytes(1+t.R.Intn(20))...)
		}
		return []byte{0x78, 0x9c}
	case 1: // compressible
		n := t.R.Intn(max)
		b := make([]byte, n)
		for i := range b {
			b[i] = byte('a' + i%3)
		}
		t.Count("payload.compressible")
		return b
	case 2:
		return t.Bytes(t.R.Intn(max))
	}
	return t.Bytes(t.R.Intn(24))
}

func (g *gen) msgOp(kind string) (string, []byte) {
	t := g.t
	typ := t.R.Intn(4)
	if t.R.Intn(40) == 0 {
		typ = 4 + t.R.Intn(4)
		t.Count("msg.invalidtype")
	}
	id := ids[t.R.Intn(len(ids))]
	if t.R.Intn(3) == 0 {
		id = t.R.Uint64() >> uint(t.R.Intn(64))
	}
	route, data := g.route(), g.payload()
	comp := t.R.Intn(2)
	errf := t.R.Intn(2)
	defl, _ := compression.DeflateData(data)
	t.Count(fmt.Sprintf("msg.typ%d", typ))
	if comp == 1 && len(defl) < len(data) {
		t.Count("msg.gzipped")
	}
	op := fmt.Sprintf("%s typ=%d id=%d route=%s data=%s err=%d comp=%d defl=%s", kind, typ, id, hx.Hex(route), hx.Hex(data), errf, comp, hx.Hex(defl))
	// validate the zlib assumption the model relies on: inflate(deflate d) = d
	if back, err := compression.InflateData(defl); err != nil || string(back) != string(data) {
		t.Count("ASSUMPTION-BROKEN.zlib")
	}
	return op, data
}

func (g *gen) validEncoding() []byte {
	op, _ := g.msgOp("enc")
	obs := exec(op)
	if strings.HasPrefix(obs, "ok ") {
		return hx.KVHex([]string{"x=" + obs[3:]}, "x")
	}
	return []byte{0, 0}
}

func (g *gen) packetsOp() string {
	t := g.t
	n := t.R.Intn(5)
	var sb strings.Builder
	sb.WriteString("prt")
	for i := 0; i < n; i++ {
		typ := 1 + t.R.Intn(5)
		if t.R.Intn(30) == 0 {
			typ = t.Pick(0, 6, 255)
			t.Count("packet.badtype")
		}
		sz := t.Pick(0, 0, 1, 3, 255, 256, 257, 1000)
		if t.Thorough() && t.R.Intn(20) == 0 {
			sz = t.Pick(65535, 65536, 70000)
		}
		fmt.Fprintf(&sb, " p=%d:%s", typ, hx.Hex(t.Bytes(sz)))
	}
	t.Count(fmt.Sprintf("prt.n%d", n))
	return sb.String()
}

// streamOp: packets for the stream layer and a fragmentation of their byte stream
func (g *gen) streamOp() string {
	t := g.t
	n := 1 + t.R.Intn(4)
	var sb strings.Builder
	sb.WriteString("srt")
	total := 0
	var starts []int
	for i := 0; i < n; i++ {
		typ := 1 + t.R.Intn(5)
		sz := t.Pick(0, 0, 1, 3, 8, 20, 255, 256, 600)
		if t.R.Intn(12) == 0 {
			sz = t.Pick(1500, 4096, 9000)
		}
		if t.Thorough() && t.R.Intn(15) == 0 {
			sz = t.Pick(65535, 65536, 70000)
		}
		starts = append(starts, total)
		total += 4 + sz
		fmt.Fprintf(&sb, " p=%d:%s", typ, hx.Hex(t.Bytes(sz)))
	}
	cut := ""
	switch t.R.Intn(7) {
	case 0: // everything in one segment
		t.Count("srt.cut.none")
	case 1:
		if total <= 4000 {
			cut = "all" // one byte at a time
			t.Count("srt.cut.all")
			break
		}
		fallthrough
	case 2:
		cut = fmt.Sprintf("every:%d", t.Pick(1, 2, 3, 5, 7, 64, 536, 1400, 1460))
		if total > 4000 && (strings.HasSuffix(cut, ":1") || strings.HasSuffix(cut, ":2") || strings.HasSuffix(cut, ":3")) {
			cut = "every:1400"
		}
		t.Count("srt.cut.every")
	case 3: // inside headers
		var cs []string
		for _, st := range starts {
			cs = append(cs, fmt.Sprint(st+1+t.R.Intn(3)))
		}
		cut = strings.Join(cs, ",")
		t.Count("srt.cut.in-header")
	case 4: // header and body written separately
		var cs []string
		for _, st := range starts {
			cs = append(cs, fmt.Sprint(st+4))
		}
		cut = strings.Join(cs, ",")
		t.Count("srt.cut.header|body")
	case 5: // exactly at the frame boundaries
		var cs []string
		for _, st := range starts[1:] {
			cs = append(cs, fmt.Sprint(st))
		}
		cut = strings.Join(cs, ",")
		t.Count("srt.cut.frames")
	default: // a few random cuts
		var cs []string
		for i := 0; i < 1+t.R.Intn(6); i++ {
			cs = append(cs, fmt.Sprint(1+t.R.Intn(total)))
		}
		cut = strings.Join(cs, ",")
		t.Count("srt.cut.random")
	}
	return sb.String() + " cut=" + cut
}

// rawFragsOp: a malformed (or valid) byte stream in random fragments
func (g *gen) rawFragsOp() string {
	t := g.t
	b := g.badStream()
	if t.R.Intn(3) == 0 {
		b = append(g.framesFor(), b...)
	}
	var fs []string
	for len(b) > 0 {
		k := 1 + t.R.Intn(min(len(b), 9))
		fs = append(fs, hx.Hex(b[:k]))
		b = b[k:]
		if t.R.Intn(10) == 0 {
			fs = append(fs, "") // a Read that yields nothing new
		}
	}
	return "gnm frag=" + strings.Join(fs, ",")
}

func (g *gen) varintStress() []byte {
	h := g.t
	k := 1 + h.R.Intn(14)
	b := []byte{byte(h.Pick(0, 4, 1, 5, 0x20, 0x24))}
	for j := 0; j < k; j++ {
		b = append(b, byte(0x80|h.R.Intn(128)))
	}
	if h.R.Intn(2) == 0 {
		b = append(b, byte(h.R.Intn(128)))
		b = append(b, h.Bytes(h.R.Intn(6))...)
	}
	return b
}

func (g *gen) badStream() []byte {
	t := g.t
	switch t.R.Intn(5) {
	case 0:
		return t.Bytes(t.R.Intn(12))
	case 1: // valid frames then a truncated one
		var all []byte
		for i := 0; i < 1+t.R.Intn(3); i++ {
			b, _ := codec.NewPomeloPacketEncoder().Encode(packet.Type(1+t.R.Intn(5)), t.Bytes(t.R.Intn(9)))
			all = append(all, b...)
		}
		if len(all) > 0 {
			all = all[:len(all)-1-t.R.Intn(min(len(all)-1, 6)+1)+1]
		}
		t.Count("stream.truncated")
		return all
	case 2: // header announcing more than is there / huge
		return []byte{byte(1 + t.R.Intn(5)), byte(t.R.Intn(256)), byte(t.R.Intn(256)), byte(t.R.Intn(256)), 1, 2, 3}
	case 3: // good frame followed by a bad type header
		b, _ := codec.NewPomeloPacketEncoder().Encode(packet.Data, t.Bytes(3))
		t.Count("stream.badsecondheader")
		return append(b, byte(t.Pick(0, 6, 200)), 0, 0, 1, 9)
	}
	b, _ := codec.NewPomeloPacketEncoder().Encode(packet.Type(1+t.R.Intn(5)), t.Bytes(t.R.Intn(5)))
	i := t.R.Intn(len(b))
	b[i] ^= byte(1 << uint(t.R.Intn(8)))
	return b
}

func TestRun(t *testing.T) {
	h := hx.Open()
	defer h.Close()
	g := &gen{t: h, hasR: map[string]bool{}, hasC: map[int]bool{}}
	curT = t
	run := func(op string) {
		if !whiteboxFor(op) {
			// the rig behind this op could not be assembled on this tree: the op is not run (and not compared)
			h.Count("whitebox=unavailable")
			return
		}
		obs := exec(op)
		h.Emit(op, obs)
		g.note(op, obs)
		if strings.HasPrefix(op, "sess ") || strings.HasPrefix(op, "sscr ") {
			// the next op lets a session's reader goroutine loose on client bytes; if that kills the
			// process the staged input must already be on disk
			h.Flush()
		}
	}
	if ops := hx.ReplayOps(); ops != nil {
		for _, op := range ops {
			run(op)
		}
		return
	}
	// dictionary: a few entries, a duplicate route and a duplicate code
	for i, r := range []string{"chat.room.join", "a.b.c", "x", "connector.entry.enter"} {
		run(fmt.Sprintf("dict route=%s code=%d", hx.Hex([]byte(r)), []int{1, 255, 256, 65535}[i]))
	}
	run(fmt.Sprintf("dict route=%s code=9", hx.Hex([]byte("a.b.c"))))
	run(fmt.Sprintf("dict route=%s code=255", hx.Hex([]byte("fresh.route"))))
	// keys with surrounding blanks are stored trimmed (in both maps); an all-blank key is the empty route
	run(fmt.Sprintf("dict route=%s code=300", hx.Hex([]byte(" room.enter "))))
	run(fmt.Sprintf("dict route=%s code=301", hx.Hex([]byte("\t\r\n room.enter")))) // dup of the trimmed route
	run(fmt.Sprintf("dict route=%s code=302", hx.Hex([]byte(" \t\n\r"))))           // stored as ""
	run(fmt.Sprintf("dictm e=%s:303 e=%s:304 e=%s:305", hx.Hex([]byte("room.leave\n")), hx.Hex([]byte("\tin ner ")), hx.Hex([]byte("plain"))))
	run("dictget")
	for _, r := range []string{"room.enter", "", "room.leave", "in ner", "plain", " room.enter "} {
		for typ := 0; typ < 4; typ++ {
			run(fmt.Sprintf("rt typ=%d id=7 route=%s data=0102 err=0 comp=0 defl=", typ, hx.Hex([]byte(r))))
		}
	}
	// corpus first
	for _, op := range hx.CorpusOps(hx.Env("VERIF_CORPUS", "corpus/C06")) {
		h.Count("corpus")
		run(op)
	}
	// exhaustive: every byte string of length <= 2 through both decoders
	run(decOp(nil))
	run("pdec data=")
	for a := 0; a < 256; a++ {
		run(decOp([]byte{byte(a)}))
		for b := 0; b < 256; b++ {
			run(decOp([]byte{byte(a), byte(b)}))
		}
	}
	h.Stats["exhaustive.dec.len<=2"] = 65793
	// the packet length limit (D13): 2^24-1 is the largest body the header can carry
	for _, n := range []int{1<<24 - 1, 1 << 24, 1<<24 + 1} {
		run(fmt.Sprintf("plimit typ=4 n=%d", n))
	}
	// session level: every message of length <= 1, and every flag byte in front of a few tails
	// (unknown code, known code, short/long route lengths, unterminated id), each as the one Data
	// packet of a fresh working session
	sess := func(data []byte) {
		run(sessOp(data))
		run("sgo")
	}
	sess(nil)
	tails := [][]byte{{0xff, 0xfe}, {0x00, 0x01, 0x41}, {0x00}, {0x03, 'a', 'b', 'c', 'x'}, {0x05, 'a'}, {0x80, 0x80}, {0x81, 0x01, 0x01, 0x2c, 0x7a}}
	for a := 0; a < 256; a++ {
		sess([]byte{byte(a)})
		for _, tl := range tails {
			sess(append([]byte{byte(a)}, tl...))
		}
	}
	h.Stats["exhaustive.sess.len<=1"] = 257
	h.Stats["sess.flag-x-tails"] = 256 * len(tails)
	// whole-session scripts: the regular order; data before the ack (ignored); ack without handshake; bad handshake;
	// handshake+ack+data in ONE frame; a bad message after a good one; nothing at all
	{
		hj := hx.Hex([]byte(hsJSON))
		m1 := "m=0:7:" + hx.Hex([]byte("a.b.c")) + ":0102:0:"
		m2 := "m=1:0:" + hx.Hex([]byte("chat.room.say")) + ":" + hx.Hex(zpayload(100)) + ":0:" + func() string { d, _ := compression.DeflateData(zpayload(100)); return hx.Hex(d) }()
		for _, sc := range []string{
			"sscr comp=1 hsok=" + hj + " hs=" + hj + " ack " + m1 + " " + m2 + " hb " + m1,
			"sscr comp=0 hsok=" + hj + " hs=" + hj + " " + m1 + " ack " + m1,
			"sscr comp=0 hsok= ack " + m1,
			"sscr comp=0 hsok= hs=" + hx.Hex([]byte(`{"sys":`)) + " ack " + m1,
			"sscr comp=0 hsok=7b7d f=010000027b7d0200000004000003020061 " + m1,
			"sscr comp=0 hsok= ack " + m1 + " f=04000002ffff " + m1,
			"sscr comp=0 hsok= ack f=0400000106 f=040000020005",
			"sscr comp=0 hsok=",
			"sscr comp=0 hsok= f= f=05000000 ack f=06000000 " + m1,
		} {
			run(sc)
			run("sgo")
		}
	}
	// one decoder for two calls: the first result must still read the same after the second call
	run("pdec2 a=0400000401020304 b=04000004fffefdfc")
	run("pdec2 a=0400000401020304 b=")
	// stream layer: encoder output in fragments through the real tcpPlayerConn.GetNextMessage
	run("srt p=4:0102030405060708090a cut=all")
	run("srt p=1:7b7d p=2: p=4:01020304 p=3: p=5:ff cut=all")
	run("srt p=4:0102030405060708090a cut=4")
	run("srt p=4:0102030405060708090a cut=2,9")
	run("srt p=4:0102030405060708090a p=4:0b0c cut=")
	run("srt p=4:" + hx.Hex(h.Bytes(100000)) + " cut=every:1400")
	run("gnm frag=04,00,00,02,aa")          // body cut short
	run("gnm frag=0400,00")                 // header cut short
	run("gnm frag=06000001,00")             // bad type
	run("gnm frag=")                        // nothing at all
	run("gnm frag=0400,0001,,7f,030000,00") // empty fragment, then a frame with empty body
	// several compressed messages in a row, all held until the stream is read; the client-side read loop
	za, zb, zc := zpayload(200), []byte(strings.Repeat("xyz", 60)), []byte(strings.Repeat("0123", 50))
	dz := func(b []byte) string { d, _ := compression.DeflateData(b); return hx.Hex(d) }
	run(fmt.Sprintf("mchain comp=1 cut= m=0:1:%s:%s:0:%s m=3:0:%s:%s:0:%s m=2:300:%s:%s:1:%s", hx.Hex([]byte("a.b.c")), hx.Hex(za), dz(za),
		hx.Hex([]byte("chat.room.say")), hx.Hex(zb), dz(zb), "", hx.Hex(zc), dz(zc)))
	run(fmt.Sprintf("mchain comp=0 cut=every:5 m=1:0:%s:%s:0:%s m=0:128:%s:%s:1:%s", hx.Hex([]byte("x")), hx.Hex(za), dz(za), hx.Hex([]byte("room.enter")), "", dz(nil)))
	{
		d1, _ := compression.DeflateData(za)
		d2, _ := compression.DeflateData(d1)
		run(fmt.Sprintf("enc2 typ=3 id=0 route=%s data=%s err=0 comp=1 defl=%s defl2=%s", hx.Hex([]byte("big.payload")), hx.Hex(za), hx.Hex(d1), hx.Hex(d2)))
		run(fmt.Sprintf("enc2 typ=0 id=9 route=%s data=%s err=0 comp=0 defl=%s defl2=%s", hx.Hex([]byte("a.b.c")), hx.Hex(za), hx.Hex(d1), hx.Hex(d2)))
	}
	run("rtd typ=1 id=0 route=" + hx.Hex([]byte("late.route")) + " data=0506 err=0 comp=0 defl= key=" + hx.Hex([]byte(" late.route\n")) + " code=777")
	run("rtd typ=0 id=5 route=" + hx.Hex([]byte("late.route")) + " data=0506 err=1 comp=0 defl= key=" + hx.Hex([]byte("other.route")) + " code=777")
	run("crl p=4:" + hx.Hex([]byte("first-frame-payload")) + " p=4:" + hx.Hex([]byte("second-frame-payload")) + " p=3: p=4:" + hx.Hex([]byte("third")) + " cut=23,47,51")
	run("crl p=4:0102030405060708090a p=4:0b0c cut=2,9,15")
	run("crl p=4:0102030405060708090a p=4:0b0c cut=")
	// payload compression beyond the 16 MiB mark (the packet limit bounds the DEFLATED body only)
	zs := []string{"zrt n=1000 mode=raw", "zrt n=16777217 mode=raw", "zrt n=17825792 mode=msg"}
	if h.Thorough() {
		zs = append(zs, "zrt n=16777215 mode=raw", "zrt n=16777216 mode=raw", "zrt n=16777216 mode=msg", "zrt n=16777217 mode=msg",
			"zrt n=25165824 mode=raw", "zrt n=33554432 mode=raw", "zrt n=33554432 mode=msg")
	}
	for _, z := range zs {
		run(z)
	}
	n := hx.EnvInt("VERIF_N", 4000)
	for i := 0; i < n; i++ {
		switch h.R.Intn(17) {
		case 0, 1, 2:
			op, _ := g.msgOp("rt")
			h.Count("op.rt")
			run(op)
		case 3:
			h.Count("op.prt")
			run(g.packetsOp())
		case 4:
			h.Count("op.pdec.bad")
			run("pdec data=" + hx.Hex(g.badStream()))
		case 5: // truncation of a valid encoding
			b := g.validEncoding()
			h.Count("op.dec.truncated")
			run(decOp(b[:h.R.Intn(len(b)+1)]))
		case 6: // single-byte mutation of a valid encoding
			b := g.validEncoding()
			i := h.R.Intn(len(b))
			if h.R.Intn(2) == 0 && len(b) > 4 {
				i = h.R.Intn(4)
			}
			b[i] ^= byte(1 << uint(h.R.Intn(8)))
			h.Count("op.dec.mutated")
			run(decOp(b))
		case 7: // random 3..40 bytes with a small flag byte so that every type/flag is hit
			b := h.Bytes(3 + h.R.Intn(38))
			if h.R.Intn(2) == 0 {
				b[0] = byte(h.R.Intn(64))
			}
			h.Count("op.dec.random")
			run(decOp(b))
		case 8: // id field stress: long runs of continuation bytes
			run(decOp(g.varintStress()))
			h.Count("op.dec.varint")
		case 9: // the same input families as the one Data packet of a session
			var b []byte
			switch h.R.Intn(5) {
			case 0:
				b = g.validEncoding()
				h.Count("op.sess.valid")
			case 1:
				b = g.validEncoding()
				b = b[:h.R.Intn(len(b)+1)]
				h.Count("op.sess.truncated")
			case 2:
				b = g.validEncoding()
				b[h.R.Intn(min(len(b), 4))] ^= byte(1 << uint(h.R.Intn(8)))
				h.Count("op.sess.mutated")
			case 3:
				b = h.Bytes(2 + h.R.Intn(12))
				b[0] = byte(h.R.Intn(64))
				h.Count("op.sess.random")
			case 4:
				b = g.varintStress()
				h.Count("op.sess.varint")
			}
			sess(b)
		case 10: // two calls on one decoder
			h.Count("op.pdec2")
			run("pdec2 a=" + hx.Hex(g.framesFor()) + " b=" + hx.Hex(g.framesFor()))
		case 11: // the long-lived decoder: decode and keep, or read an earlier result again
			if h.R.Intn(2) == 0 {
				h.Count("op.pdecs")
				run("pdecs data=" + hx.Hex(g.framesFor()))
			} else {
				h.Count("op.pchk")
				run(fmt.Sprintf("pchk k=%d", h.R.Intn(winCap+1)))
			}
		case 13: // stream layer
			if h.R.Intn(4) == 0 {
				h.Count("op.gnm")
				run(g.rawFragsOp())
			} else {
				h.Count("op.srt")
				run(g.streamOp())
			}
		case 14: // the whole path for several messages in a row; one message object encoded twice
			if k := h.R.Intn(6); k == 0 {
				h.Count("op.enc2")
				run(g.enc2Op())
			} else if k == 1 {
				h.Count("op.rtd")
				run(g.rtdOp())
			} else {
				h.Count("op.mchain")
				run(g.chainOp())
			}
		case 16: // a whole session script
			h.Count("op.sscr")
			run(g.scriptOp())
			run("sgo")
		case 15: // the client-side read loop (accumulating read buffer) in front of the packet decoder
			h.Count("op.crl")
			run(g.crlOp())
		case 12:
			if h.R.Intn(5) == 0 {
				h.Count("op.dict")
				run(g.dictOp())
				if h.R.Intn(4) == 0 {
					run("dictget")
				}
			} else { // a routable message to a dictionary route (as stored, i.e. trimmed)
				op, _ := g.msgOp("rt")
				h.Count("op.rt")
				run(op)
			}
		}
	}
	run("dictget")
	h.Stats["whitebox.acceptor="+getAccRig().mode] = 1
	h.Stats["whitebox.client="+getCliRig().mode] = 1
}

// TestExhaustive3 (thorough tier): every byte string of length 3 through
// message.Decode in-process; any panic is recorded, and every 97th input
// (plus all inputs whose flag byte selects a routable type) goes into the trace
// for comparison with the model.
func TestExhaustive3(t *testing.T) {
	h := hx.Open()
	defer h.Close()
	total, panics := 0, 0
	for a := 0; a < 256; a++ {
		for b := 0; b < 256; b++ {
			for c := 0; c < 256; c++ {
				data := []byte{byte(a), byte(b), byte(c)}
				total++
				obs := doDecode(data)
				if obs == "panic" {
					panics++
					if panics <= 20 {
						h.Emit(decOp(data), obs)
					}
					continue
				}
				if total%97 == 0 || (a < 8 && b < 8) {
					h.Emit(decOp(data), obs)
				}
			}
		}
	}
	h.Stats["exhaustive.dec.len=3"] = total
	h.Stats["exhaustive.dec.len=3.panics"] = panics
}
