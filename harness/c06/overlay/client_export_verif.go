package client

import (
	"bytes"
	"net"

	"github.com/dfklegend/cell2/pomelonet/common/conn/packet"
)

// White-box access for the C06 harness to the packet decoder's second caller: Client.readPackets, the body of
// the readServerMessages loop (one long-lived bytes.Buffer accumulates the socket reads, Decode is handed
// buf.Bytes(), the consumed bytes are dropped with buf.Next).  This file is NOT part of /repo; it is mapped
// into the package directory at build time only (go test -overlay=/verif/harness/c06/overlay/overlay.json).
// The Client is built by New() exactly as an application does; conn stands for the dialled socket.
// The returned function is one iteration of readServerMessages (without pushing to packetChan).
func VerifReadLoop(conn net.Conn) func() ([]*packet.Packet, error) {
	c := New()
	c.conn = conn
	buf := bytes.NewBuffer(nil)
	return func() ([]*packet.Packet, error) { return c.readPackets(buf) }
}
