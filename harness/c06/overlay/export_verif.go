package acceptor

import "net"

// The one thing the C06 harness cannot reach from outside the package: the unexported
// tcpPlayerConn, which TCPAcceptor.serve builds around every accepted net.Conn and whose
// GetNextMessage reassembles one framed packet from the TCP byte stream.  This file is NOT part of
// /repo; it is mapped into the package directory at build time only
// (go test -overlay=/verif/harness/c06/overlay/overlay.json).  It builds the value exactly as
// serve() does, around a net.Conn of the harness's choosing.
func VerifTCPPlayerConn(c net.Conn) PlayerConn { return &tcpPlayerConn{Conn: c} }
