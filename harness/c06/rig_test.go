// Rigs that put the harness's stand-in socket behind the two unexported readers of the byte stream WITHOUT naming
// any unexported identifier of /repo (no overlay shim any more; a rename / move / split of an unexported
// identifier cannot break this package's build):
//
//   - accRig: the server side.  acceptor.NewTCPAcceptor + ListenAndServe (exported) run the real accept loop; the
//     ONE field of type net.Listener of the TCPAcceptor is replaced (by type, reflect) with a listener whose
//     Accept hands out the harness's fragConn, and GetConnChan (exported) yields the real PlayerConn the accept
//     loop built around it.  Fallback when there is no unique net.Listener field: the real loopback listener and
//     a real TCP connection (whitebox=tcp-loopback).
//   - cliRig: the client side.  client.New + ConnectTo (exported) start the real read loop on a loopback socket;
//     the ONE field of type net.Conn is replaced with a gated stand-in, a heartbeat frame on the dialled socket
//     sends the loop round once, and from then on it reads from the stand-in; the ONE field of type
//     chan *packet.Packet is replaced with the harness's queue once every goroutine of the client is parked
//     (synctest bubble), so the harness sees exactly what the loop publishes.
//
// When a rig cannot be assembled the ops that need it are not run (histogram key whitebox=unavailable).
package c06

import (
	"fmt"
	"io"
	"net"
	"os"
	"reflect"
	"sync"
	"sync/atomic"
	"testing"
	"testing/synctest"
	"time"
	"unsafe"

	pclient "github.com/dfklegend/cell2/pomelonet/client"
	"github.com/dfklegend/cell2/pomelonet/common/conn/packet"
	"github.com/dfklegend/cell2/pomelonet/server/acceptor"
	"github.com/dfklegend/cell2/utils/logger"
	"github.com/sirupsen/logrus"
)

var curT *testing.T // the running test (the client rig's bubble hangs off it)

func rigNote(format string, a ...any) { fmt.Fprintf(os.Stderr, "c06 rig: "+format+"\n", a...) }

// fieldsOfType: settable views of every field of exactly the given type inside *ptr (nested struct values
// included, pointers not followed)
func fieldsOfType(ptr any, typ reflect.Type) []reflect.Value {
	var out []reflect.Value
	var walk func(v reflect.Value)
	walk = func(v reflect.Value) {
		for i := 0; i < v.NumField(); i++ {
			f := v.Field(i)
			if f.Type() == typ {
				out = append(out, reflect.NewAt(f.Type(), unsafe.Pointer(f.UnsafeAddr())).Elem())
			} else if f.Kind() == reflect.Struct {
				walk(f)
			}
		}
	}
	walk(reflect.ValueOf(ptr).Elem())
	return out
}

var (
	listenerType = reflect.TypeOf((*net.Listener)(nil)).Elem()
	connType     = reflect.TypeOf((*net.Conn)(nil)).Elem()
	pktChanType  = reflect.TypeOf((chan *packet.Packet)(nil))
)

// ---------------------------------------------------------------------------------------------- server side

type fakeListener struct {
	ch   chan net.Conn
	done chan struct{}
	once sync.Once
}

func (l *fakeListener) Accept() (net.Conn, error) {
	select {
	case c := <-l.ch:
		return c, nil
	case <-l.done:
		return nil, net.ErrClosed
	}
}
func (l *fakeListener) Close() error   { l.once.Do(func() { close(l.done) }); return nil }
func (l *fakeListener) Addr() net.Addr { return &net.TCPAddr{IP: net.IPv4(127, 0, 0, 1), Port: 1} }

type accRig struct {
	mode string // listener-swap | tcp-loopback | unavailable
	a    *acceptor.TCPAcceptor
	fl   *fakeListener
	addr string
}

var (
	accOnce sync.Once
	acc     *accRig
)

func getAccRig() *accRig {
	accOnce.Do(func() {
		logger.SetLogLevel(logrus.PanicLevel)
		r := &accRig{mode: "unavailable"}
		acc = r
		a := acceptor.NewTCPAcceptor("127.0.0.1:0")
		go a.ListenAndServe()
		for end := time.Now().Add(3 * time.Second); a.GetAddr() == "" && time.Now().Before(end); {
			time.Sleep(time.Millisecond)
		}
		if a.GetAddr() == "" {
			rigNote("acceptor: no loopback listener; srt/gnm/mchain are not run")
			return
		}
		r.a, r.addr = a, a.GetAddr()
		fs := fieldsOfType(a, listenerType)
		if len(fs) != 1 || fs[0].IsNil() {
			rigNote("acceptor: %d fields of type net.Listener (want 1); falling back to a real loopback connection", len(fs))
			r.mode = "tcp-loopback"
			return
		}
		real := fs[0].Interface().(net.Listener)
		fl := &fakeListener{ch: make(chan net.Conn), done: make(chan struct{})}
		fs[0].Set(reflect.ValueOf(fl))
		real.Close() // the accept loop comes round and asks the stand-in
		// self-test: a conn handed to Accept comes back as a PlayerConn that reads from it
		probe := &fragConn{frags: [][]byte{{3, 0}, {0, 0}}}
		ok := false
		select {
		case fl.ch <- probe:
			select {
			case pc := <-a.GetConnChan():
				// only the plumbing is tested (does the PlayerConn read from the conn that was handed to Accept?), not what
				// GetNextMessage makes of the bytes: a defect there must reach the ops, not switch them off
				func() {
					defer func() { recover() }()
					pc.GetNextMessage()
				}()
				left := 0
				for _, f := range probe.frags {
					left += len(f)
				}
				ok = left < 4
			case <-time.After(3 * time.Second):
			}
		case <-time.After(3 * time.Second):
		}
		if !ok {
			rigNote("acceptor: the accept loop does not serve the stand-in listener; srt/gnm/mchain are not run")
			a.Stop()
			return
		}
		r.fl, r.mode = fl, "listener-swap"
	})
	return acc
}

// playerConn: the real PlayerConn the accept loop builds around a connection that delivers fc's fragments
func (r *accRig) playerConn(fc *fragConn) acceptor.PlayerConn {
	switch r.mode {
	case "listener-swap":
		r.fl.ch <- fc
	case "tcp-loopback":
		c, err := net.Dial("tcp", r.addr)
		if err != nil {
			panic("acceptor rig: dial: " + err.Error())
		}
		go func() {
			for _, f := range fc.frags {
				if len(f) > 0 {
					c.Write(f)
				}
			}
			c.Close()
		}()
	default:
		panic("acceptor rig unavailable")
	}
	select {
	case pc := <-r.a.GetConnChan():
		return pc
	case <-time.After(20 * time.Second):
		panic("acceptor rig: the accept loop published no PlayerConn")
	}
}

// ---------------------------------------------------------------------------------------------- client side

// gatedConn: the stand-in socket of the client.  Read parks until the harness releases the next fragment; one Read
// never crosses a fragment boundary; a closed gate is io.EOF.
type gatedConn struct {
	in      chan []byte // made inside the bubble
	cur     []byte
	waiting atomic.Bool
	asked   atomic.Int64
}

func (g *gatedConn) Read(p []byte) (int, error) {
	for len(g.cur) == 0 {
		g.asked.Add(1)
		g.waiting.Store(true)
		f, ok := <-g.in
		g.waiting.Store(false)
		if !ok {
			return 0, io.EOF
		}
		g.cur = f
	}
	if len(p) == 0 {
		return 0, nil
	}
	n := copy(p, g.cur)
	g.cur = g.cur[n:]
	return n, nil
}
func (g *gatedConn) Write(b []byte) (int, error)        { return len(b), nil }
func (g *gatedConn) Close() error                       { return nil }
func (g *gatedConn) LocalAddr() net.Addr                { return nil }
func (g *gatedConn) RemoteAddr() net.Addr               { return nil }
func (g *gatedConn) SetDeadline(t time.Time) error      { return nil }
func (g *gatedConn) SetReadDeadline(t time.Time) error  { return nil }
func (g *gatedConn) SetWriteDeadline(t time.Time) error { return nil }

type watchItem struct {
	gen  int64
	conn net.Conn
}

type cliRig struct {
	mode    string // read-loop | unavailable
	ln      net.Listener
	addr    string
	req     chan func()    // made outside the bubble
	watch   chan watchItem // real-time watchdog (outside the bubble)
	gen     int64
	settled atomic.Int64
}

var (
	cliOnce sync.Once
	cli     *cliRig
)

func getCliRig() *cliRig {
	cliOnce.Do(func() {
		logger.SetLogLevel(logrus.PanicLevel)
		r := &cliRig{mode: "unavailable"}
		cli = r
		probe := pclient.New()
		if n, m := len(fieldsOfType(probe, connType)), len(fieldsOfType(probe, pktChanType)); n != 1 || m != 1 {
			rigNote("client: %d fields of type net.Conn, %d of type chan *packet.Packet (want 1, 1); crl is not run", n, m)
			return
		}
		if curT == nil {
			rigNote("client: no running test; crl is not run")
			return
		}
		ln, err := net.Listen("tcp", "127.0.0.1:0")
		if err != nil {
			rigNote("client: no loopback listener (%v); crl is not run", err)
			return
		}
		r.ln, r.addr = ln, ln.Addr().String()
		r.req = make(chan func())
		r.watch = make(chan watchItem, 1)
		go func() { // if the read loop never comes round to the stand-in, cut the dialled socket so that the bubble settles
			for w := range r.watch {
				for i := 0; i < 10000 && r.settled.Load() < w.gen; i++ {
					time.Sleep(time.Millisecond)
				}
				if r.settled.Load() < w.gen {
					w.conn.Close()
				}
			}
		}()
		// one long-lived bubble: every op is a closure run on its root goroutine (req is not a bubble channel, so
		// waiting for the next op is not a deadlock and the virtual clock stands still)
		go synctest.Test(curT, func(*testing.T) {
			for f := range r.req {
				f()
			}
		})
		// self-test
		var got []string
		ok := func() (ok bool) {
			defer func() {
				if e := recover(); e != nil {
					rigNote("client: self-test: %v", e)
					ok = false
				}
			}()
			r.readLoop([][]byte{{3, 0}, {0, 0, 4, 0, 0, 1, 7}}, func(p *packet.Packet) {
				got = append(got, fmt.Sprintf("%d:%x", p.Type, p.Data))
			})
			return true
		}()
		// only the plumbing is tested (the loop reads from the stand-in and publishes to the harness's queue), not what it
		// makes of the bytes: a defect there must reach the ops, not switch them off
		if !ok || len(got) == 0 {
			rigNote("client: the read loop does not publish what it reads from the stand-in socket (%v); crl is not run", got)
			return
		}
		r.mode = "read-loop"
	})
	return cli
}

// do runs f on the bubble's root goroutine; a panic of f is re-raised in the caller
func (r *cliRig) do(f func()) {
	done := make(chan any, 1)
	r.req <- func() {
		defer func() { done <- recover() }()
		f()
	}
	if e := <-done; e != nil {
		panic(e)
	}
}

// readLoop: a fresh Client (client.New) whose real read loop is started by ConnectTo; the fragments are released one
// by one to its socket stand-in; each packet the loop publishes is handed to `each` before the next fragment is
// released.  Returns true when the loop gave up before all fragments were read.
func (r *cliRig) readLoop(frags [][]byte, each func(p *packet.Packet)) (gaveUp bool) {
	r.do(func() {
		c := pclient.New()
		devnull, _ := os.OpenFile(os.DevNull, os.O_WRONLY, 0)
		stdout := os.Stdout
		if devnull != nil {
			os.Stdout = devnull // ConnectTo reports its progress with fmt.Printf
		}
		err := c.ConnectTo(r.addr)
		os.Stdout = stdout
		if devnull != nil {
			devnull.Close()
		}
		if err != nil {
			panic("client rig: ConnectTo: " + err.Error())
		}
		srv, err := r.ln.Accept()
		if err != nil {
			panic("client rig: accept: " + err.Error())
		}
		defer srv.Close()
		cf := fieldsOfType(c, connType)[0]
		dialled, _ := cf.Interface().(net.Conn)
		gc := &gatedConn{in: make(chan []byte)}
		cf.Set(reflect.ValueOf(net.Conn(gc)))
		r.gen++
		r.watch <- watchItem{gen: r.gen, conn: srv}
		srv.Write([]byte{byte(packet.Heartbeat), 0, 0, 0}) // the loop's pending read on the dialled socket returns; its next read asks gc
		synctest.Wait()                                    // every goroutine of the client is parked
		r.settled.Store(r.gen)
		if dialled != nil {
			dialled.Close()
		}
		if !gc.waiting.Load() {
			panic("client rig: the read loop never asked the stand-in socket")
		}
		qf := fieldsOfType(c, pktChanType)[0]
		orig, _ := qf.Interface().(chan *packet.Packet)
		out := make(chan *packet.Packet, 4096)
		qf.Set(reflect.ValueOf(out)) // the consumer stays parked on the original queue; the loop publishes here
		closed := false
		drain := func() {
			for {
				select {
				case p, ok := <-out:
					if !ok {
						closed = true
						return
					}
					each(p)
				default:
					return
				}
			}
		}
		for _, f := range frags {
			if len(f) == 0 {
				continue
			}
			if closed || !gc.waiting.Load() {
				gaveUp = true
				break
			}
			gc.in <- f
			synctest.Wait()
			drain()
			if closed || !gc.waiting.Load() {
				gaveUp = true
				break
			}
		}
		if !closed && gc.waiting.Load() {
			close(gc.in) // end of stream: the loop disconnects the client
			synctest.Wait()
		}
		if orig != nil { // wake a consumer that is still parked on the original queue so that it sees the disconnect
			select {
			case orig <- &packet.Packet{Type: packet.Heartbeat}:
			default:
			}
			synctest.Wait()
		}
	})
	return gaveUp
}
