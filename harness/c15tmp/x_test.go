package c15tmp

import (
	"testing"

	"github.com/dfklegend/cell2/utils/waterfall"
)

func TestSimpleEmpty(t *testing.T) {
	defer func() { t.Logf("Simple(empty): recovered=%v", recover()) }()
	waterfall.Simple(nil, func(err bool, args ...interface{}) { t.Logf("final %v %v", err, args) })
}

func TestExecAndWaitEmpty(t *testing.T) {
	defer func() { t.Logf("ExecAndWait(empty): recovered=%v", recover()) }()
	waterfall.ExecAndWait(nil, func(err bool, args ...interface{}) { t.Logf("final %v %v", err, args) })
}
